#!/bin/sh
# Builds the fact extractor and warms the dependency cache (offline).
set -e
cd "$(dirname "$0")"
export CARGO_NET_OFFLINE=true
python3 - <<'PY'
import sys
sys.path.insert(0, '.')
from nx import extract
extract.build_driver()
recs, info = extract.extract('default')
print('setup ok:', info['bodies'], 'bodies,', info['extract_s'], 's')
PY
