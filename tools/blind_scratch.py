#!/usr/bin/env python3
"""Like tools/blind.py, but applies the patches to a scratch worktree of /repo's HEAD (/tmp/scratch2, created on demand) and
leaves /repo alone: tools/blind_scratch.py <outdir> <round> Cxx [Cyy ...]. Used for round 10 while /repo was busy with thorough runs."""
import json, os, subprocess, sys
out, rnd = sys.argv[1], sys.argv[2]
W="/tmp/scratch2"
path = "/verif/seeded/ROUND%s.json" % rnd
rec = json.load(open(path)) if os.path.exists(path) else {"_comment": "Blind round %s: first result of the property's own check on each patch (applied to a scratch worktree of /repo's HEAD), recorded before any rule was touched in reaction to it." % rnd}
def sh(c, cwd=None):
    return subprocess.run(c, shell=True, cwd=cwd, capture_output=True, text=True)
if not os.path.isdir(W):
    sh("git -C /repo worktree add -q --detach %s HEAD" % W)
sh("git checkout -q --detach $(git -C /repo rev-parse HEAD) && git reset -q --hard HEAD", W)
for pid in sys.argv[3:]:
    for n in ("1", "2"):
        d = os.path.join(out, pid, n); sid = "%s-r%s-%s" % (pid, rnd, n)
        if not os.path.exists(os.path.join(d, "patch.diff")):
            print(sid, "no patch"); continue
        a = sh("git apply %s/patch.diff" % d, W)
        if a.returncode != 0:
            print(sid, "PATCH DOES NOT APPLY", a.stderr[:200]); sh("git reset -q --hard HEAD", W); continue
        try:
            c = sh("./check %s --tier quick --repo %s" % (pid, W), "/verif")
        finally:
            sh("git reset -q --hard HEAD && git clean -fdq", W)
        keys = [l.split("[", 1)[1].split("]", 1)[0] for l in c.stdout.splitlines() if l.startswith("  violated: [")]
        files = sorted(set(l[6:].strip() for l in open(os.path.join(d, "patch.diff")) if l.startswith("+++ b/")))
        res = "caught" if c.returncode != 0 else "missed"
        print(sid, res, files, keys[:4])
        if sid not in rec:
            rec[sid] = {"first_run": res, "files": files}
            if keys: rec[sid]["by"] = keys[:6]
json.dump(rec, open(path, "w"), indent=1)
