import re, sys
def wire(mod, ids, title="must-pass-through: no path around the effects this property rests on (added fast paths / early returns)"):
    p='/verif/nx/rules/%s.py'%mod
    s=open(p).read()
    pid="C"+mod[1:]
    if "def rule_mustpass(ctx)" in s:
        # extend the existing list
        m=re.search(r"def rule_mustpass\(ctx\):\n    from \. import mustpass\n    mustpass\.check\(ctx, (\[.*?\])\)", s, re.S)
        cur=eval(m.group(1))
        new=cur+[i for i in ids if i not in cur]
        s=s.replace(m.group(1), repr(new),1)
        open(p,'w').write(s); print(mod,"extended",len(new)); return
    letters=re.findall(r'\("%s\.([a-z])"' % pid, s)
    nxt=chr(max(ord(c) for c in letters)+1)
    s=s.rstrip("\n")+'''


def rule_mustpass(ctx):
    from . import mustpass
    mustpass.check(ctx, %r)


RULES.append(("%s.%s", "%s", rule_mustpass))
''' % (ids, pid, nxt, title)
    open(p,'w').write(s); print(mod, pid+"."+nxt)
if __name__=="__main__":
    import json
    for mod, ids in json.loads(sys.argv[1]).items():
        wire(mod, ids)
