#!/usr/bin/env python3
"""Copies confirmed seeded defects from /tmp/mutout/<Cxx>/<n>/ into /verif/seeded/<Cxx>-<n>/ and writes meta.json.

A seed is imported only if confirm.json (written by tools/confirm_seed.sh on a scratch worktree) says:
the patch applies and builds, the unedited suite passes with it, the demonstration fails with it and passes without it.
"""
import glob
import json
import os
import shutil
import sys

SRC = "/tmp/mutout"
DST = "/verif/seeded"

NEEDS = {
    "C01-1": "clocked simulation; a Scheduler handle used from another thread (or from the clock callback) inside the synchronize() window of step(): the new time is published only after the clock wait",
    "C01-2": "Scheduler::schedule_event on another thread racing with step(): the deadline is validated before the queue lock is taken (only this one of the five schedule*_from variants)",
    "C02-1": "output with >= 2 connections, one recipient mailbox full, and the freed slot taken by another sender before the re-poll (spurious wake of a still-pending sub-send)",
    "C02-2": "earlier-connected recipient's mailbox full while the last-connected recipient accepts at once (first-poll pass decides from the last poll result)",
    "C03-1": "more same-time scheduled events for one model than its mailbox capacity (a sub-future of the SeqFuture returns Pending)",
    "C03-2": "a port clone that already sent once, then a connection added through a different, never-synced clone (epoch computed from the clone's cached epoch)",
    "C04-1": "EventSource with >= 2 connections into one capacity-limited mailbox: two sends of one broadcast blocked at once and depending on each other (take_scheduled(pending) instead of 1)",
    "C04-2": "output with >= 2 recipients, an earlier successful broadcast on the same port, then back-pressure in a later one (stale Some in a reused reply slot)",
    "C05-1": "a wake during a poll followed by a second cross-thread wake during the resulting re-poll (post-poll RMW clears the whole wake field)",
    "C05-2": "a handler future self-notifying ~2^31 times within one poll plus one wake from another worker (overflow guard removed)",
    "C06-1": "a single-threaded simulation run from inside a model handler of another simulation that has a sent-but-unreceived message on that thread",
    "C06-2": "mixed stall: a message queued at a model of the simulation AND messages in a mailbox that was never added",
    "C07-1": ">= 2 origins with events at the same time, an origin other than the first in key order having >= 2 events (batch key not advanced)",
    "C07-2": "a periodic handler (or any handler of that origin in the same step) scheduling an event due exactly at t + period (re-insertion moved after the step)",
    "C08-1": "Scheduler::schedule_event from another thread racing with step() (validation hoisted above the queue lock)",
    "C08-2": "non-keyed periodic request whose first deadline equals the current time (Duration::ZERO or absolute == now): `>=` became `>`",
    "C09-1": ">= 3 same-key events of which a later one is cancelled before the step (inner loop peeks the queue without skipping cancelled heads)",
    "C09-2": "keyed *periodic* event cancelled by an earlier event of the same model at the same time (generator ignores the key)",
    "C10-1": "several periodic/same-key actions for one model whose sub-send pends on a full mailbox (SeqFuture skips a pending future)",
    "C11-1": "any further call after a fatal error (guards removed, relying on run())",
    "C12-1": "mailbox closed (last Address dropped), then len() read by a deadlock report: closed flag counted as a carry",
    "C12-2": "full mailbox, a sender blocked in send, and a handler that suspends on something only that sender can provide (notify_one moved after the handler)",
    "C13-1": "poll->Pending, CancelToken dropped without cancelling, no Promise, then the last waker consumed by wake() by value",
    "C13-2": "CancelToken::cancel landing during a poll that returns Pending with no concurrent wake-up",
    "C14-1": "a reply iterator dropped before exhaustion, then a later query accepted by fewer repliers (filtered connections)",
    "C14-2": "a clone mid-refresh while another clone calls connect() on another thread (epoch bumped before taking the mutex)",
    "C15-1": "a reader on another thread whose whole read falls between the writer's odd and even sequence stores (odd-sequence early return removed)",
    "C15-2": "a Scheduler handle used from another thread inside the clock wait of step_until's final jump (target written after the lock is released)",
    "C16-1": "a model that owns sub-models raising an error (ModelId read before build() registers the children)",
    "C16-2": "a sub-model added with an empty name (qualification before the emptiness test)",
    "C17-1": "buffer filled to capacity, closed, written, read (eviction happens before the is_open test)",
    "C17-2": "zero-sized event type (VecDeque::capacity() is usize::MAX) and more than `capacity` writes between reads",
    "C18-1": "step_until to a target with no event at the target (final jump synchronises before / without the write)",
    "C19-1": "a multi-threaded simulation dropped on a worker thread of another multi-threaded simulation (ACTIVE_TASKS not unset)",
    "C11-2": "a ProtoModel that adds sub-models in build() and then fails itself (ModelId read before build() registers the children)",
    "C18-2": "set_clock_tolerance(..) called before set_clock(..) with a clock lagging more than the tolerance (set_clock rebuilds the clock setup and drops the tolerance)",
    "C20-1": ">= 2 items queued, a pull that leaves exactly one, then an insert with the survivor's key (pull rewinds next_epoch when len <= 1)",
    "C20-2": "insert, extract(k), insert again, extract(k) again with a retained copy of the key (extract hands the epoch of the newest entry back)",
    "C01-r2-1": "two or more actions with the same deadline and origin, more of them than the mailbox capacity (SeqFuture advances before polling)",
    "C01-r2-2": "Scheduler::schedule_keyed_event on another thread racing with step() (deadline validated before the queue lock)",
    "C02-r2-1": "port with >= 2 connections, recipient with a full mailbox, the freed slot taken by another sender before the re-poll (spurious wake counted as completion)",
    "C02-r2-2": "cross-thread race inside Event::wait_until with two full recipients of one broadcast (stale wake of a completed delivery counted twice)",
    "C03-r2-1": ">= 2 events for the same time and model, more than the mailbox capacity (SeqFuture advances before polling)",
    "C03-r2-2": "Output with >= 2 accepting connections, an earlier broadcast through it, then a broadcast that meets a full mailbox (slot clearing moved to Drop)",
    "C04-r2-1": ">= 2 events at the same time for the same model and a mailbox that fills during the burst (SeqFuture advances before polling)",
    "C04-r2-2": "several lines of one output ending in the same saturated mailbox (take_scheduled(pending_count) in the output broadcaster)",
    "C05-r2-1": "woken while being polled, then woken again during the immediate re-poll from another worker (post-poll RMW clears the whole wake field)",
    "C05-r2-2": "two concurrent wakers of an idle task racing within a few instructions (schedule decision taken on a pre-loaded state instead of the RMW result)",
    "C06-r2-1": "an orphan mailbox saturated by a model: the blocked sender's message is counted before it is pushed (MessageLoss too large by one per blocked sender)",
    "C06-r2-2": "a bench using add_submodel plus a deadlock in that subtree (observers paired with model names by position; orders differ for hierarchies)",
    "C07-r2-1": "a model with a periodic self-event that, while handling an occurrence, schedules a one-shot for the time of the next occurrence (re-insertion after run)",
    "C07-r2-2": "mixing scheduler.schedule(t, source.event(..)) with scheduler.schedule_event(t, .., &addr) for the same model and deadline (origin = target mailbox id)",
    "C08-r2-1": "a Scheduler::schedule* call from another thread inside the synchronize() window of step() (time published after the lock is released)",
    "C08-r2-2": "non-keyed periodic request whose first deadline equals the current time (`>=` became `>` in one of five validation sites)",
    "C09-r2-1": ">= 3 actions due at the same time and origin, two live ones ahead of a cancelled keyed EventSource action (inner loop peeks the raw queue)",
    "C09-r2-2": "keyed periodic event cancelled by an earlier event of the same model at the same time (generator ignores the key)",
    "C10-r2-1": ">= 2 same-origin periodic actions on one timestamp and a full target mailbox (SeqFuture advances before polling)",
    "C10-r2-2": "a cancelled keyed periodic EventSource action preceded by two live global-scheduler actions at the same timestamp (raw peek in the batch loop)",
    "C11-r2-1": "a model whose build() adds sub-models and that then faults itself (ModelId read before build())",
    "C11-r2-2": "a Panic or NoRecipient from a model, then any further call (is_terminated set after the match, early returns skip it)",
    "C12-r2-1": "close() landing between a push's position CAS and its stamp publication, with the receiver polling in that window (pop tests is_closed() instead of enqueue_pos == dequeue_pos | closed)",
    "C12-r2-2": "mailbox closed, then len() read (deadlock report): `!index_mask` includes the closed flag, spurious carry",
    "C13-r2-1": "CancelToken::cancel landing during a poll that returns Pending with no concurrent wake-up (post-poll CLOSED test removed)",
    "C13-r2-2": "last waker consumed by wake() by value while the task is scheduled/being polled (release decision taken on the pre-wake state)",
    "C14-r2-1": "a reply iterator dropped before exhaustion, then a later query on the same requestor (slot clearing moved to the cancelled-Drop path)",
    "C14-r2-2": "a clone refreshing its cache while another clone calls connect() on another thread (epoch bumped before taking the mutex)",
    "C15-r2-1": "a reader on another thread whose whole read falls between the writer's odd and even sequence stores (odd-sequence early return removed)",
    "C15-r2-2": "any reader concurrent with a write (`let _ = WriteGuard::new(..)` drops the guard at once; the stores happen outside the odd window)",
    "C16-r2-1": "a model that owns sub-models raising an error or named in a deadlock report (ModelId read before build() registers the children)",
    "C16-r2-2": "a model whose init() sends more events to a peer than the peer's mailbox holds while the peer's handler waits on it (notify_one after the handler)",
    "C17-r2-1": "EventBuffer written past capacity (truncate drops from the back: newest retained event evicted instead of the oldest)",
    "C17-r2-2": "EventSlot written twice before a read (get_or_insert keeps the first value)",
    "C18-r2-1": "step_until with a clock and a Scheduler handle on another thread: the final synchronize runs before the re-check/time write",
    "C18-r2-2": "a lagging clock with a tolerance set and a step whose target equals the current time bound (tolerance test skipped when current_time == upper bound)",
    "C19-r2-1": "a single-threaded simulation dropped inside a handler of another single-threaded simulation (ACTIVE_TASKS still points at the outer slab)",
    "C19-r2-2": "output with >= 2 connections, a full target mailbox, simulation dropped while the broadcast is pending (ManuallyDrop released only when Completed)",
    "C20-r2-1": ">= 2 items queued, pulls down to one survivor, then an insert with the survivor's key (pull rewinds next_epoch when len <= 1)",
    "C20-r2-2": "an extract that empties the indexed queue, later inserts, then a retained older InsertKey (extract replaces the drained queue by a fresh one)",
    "C01-r3-1": "inside one step_until: an earlier handler cancels the action that is next in the queue while a further live action is due before the target (fast path jumps to the target on a cancelled head)",
    "C01-r3-2": "Scheduler::schedule_keyed_event on another thread with a time advance between the helper's time read and the queue lock (new helper checked_deadline reads the time unlocked)",
    "C02-r3-1": "Output with exactly two connections, the first-connected recipient's mailbox full, the second send completing (new PairFuture is Ready when the second completes)",
    "C02-r3-2": "broadcast to >= 2 recipients, one full mailbox, the freed slot stolen by a third sender between the pop and the woken sender's retry (all-woken fast path declares completion)",
    "C03-r3-1": ">= 2 senders blocked on the same mailbox with capacity >= 2: the receiver notifies only when the queue was full before the pop",
    "C03-r3-2": "output with >= 2 connections, one completed broadcast, then a broadcast meeting a full mailbox (slots reset only after a cancelled broadcast)",
    "C04-r3-1": "fan-in: >= 2 sender tasks blocked on one full mailbox and >= 2 pops before it refills (conditional notify_one)",
    "C04-r3-2": "multi-threaded executor, >= 256 consecutive polls on one worker in a step, empty injector, nothing to steal (worker leaves its run loop with tasks queued)",
    "C05-r3-1": ">= 2 coalesced wake-ups before a poll plus one more wake from another worker during that poll (wake count acknowledged before polling)",
    "C05-r3-2": "two concurrent wakes of one idle task within the load-to-CAS window, at least one by value (stale schedule decision in new wake_and_release)",
    "C06-r3-1": "two models (or sub-models) registered under the same name, a deadlock leaving messages in the second one's mailbox (observer skipped for a repeated name)",
    "C06-r3-2": "a step that both deadlocks a model of the simulation and sends to a mailbox that was never added (new MessageLoss arm)",
    "C07-r3-1": "a periodic event, then a one-shot from the same origin whose time coincides with a later occurrence (recurrence re-inserted under the old epoch)",
    "C07-r3-2": "> 256 events with the same deadline from the same origin (sequence split into separately spawned batches)",
    "C08-r3-1": "step_until with nothing queued up to the target and a Scheduler::schedule* call landing while it waits on the clock (idle fast path: check and write not atomic)",
    "C08-r3-2": "a pre-built keyed periodic action with a zero period passed to Scheduler::schedule (period() default not overridden)",
    "C09-r3-1": "a keyed periodic event whose key is cancelled by an earlier event of the same model at the same time (new send_keyed_periodic_event checks the key only when sending)",
    "C09-r3-2": "a one-shot keyed event scheduled by the driver, key handed to a model and cancelled by an earlier event at the same time (public method rebuilt on an un-keyed generator)",
    "C10-r3-1": "a processed step, then a periodic action scheduled through the handle earlier than the next queued deadline, then a step_until short of that deadline (stale next-deadline hint)",
    "C10-r3-2": ">= 3 same-origin actions due at the same instant and a target mailbox that fills mid-batch (SeqFuture drains completed futures without resetting idx)",
    "C11-r3-1": "a clock tolerance, step_until to a time with no event, lag above the tolerance at the final synchronize (OutOfSync returned by a helper that cannot set is_terminated); rebased onto 3370f28, original patch kept as patch_orig_6b8fb82.diff",
    "C11-r3-2": "an output wired with filter_map_connect to a mailbox dropped before the send (early `return None` when closed: NoRecipient never raised)",
    "C12-r3-1": ">= 2 senders parked on a mailbox of capacity >= 2 (notify_one only when the queue was full before the pop)",
    "C12-r3-2": "multi-threaded: two producers pushing to an empty mailbox at once while the receiver sleeps (notify only if len <= 1 after the push)",
    "C13-r3-1": "no Promise / CancelToken / Waker alive when run starts and the future stashes a waker clone in the poll that returns Ready (sole-owner fast path frees the task)",
    "C13-r3-2": ">= 2 wakes before the Runnable starts, then a wake by value during the poll (redundant-wake fast path skips the state update)",
    "C14-r3-1": "a reply iterator consumed only partly, then another query with >= 2 accepting repliers (slots cleared only after a cancelled broadcast)",
    "C14-r3-2": "clone B connects a replier, then clone A calls connect without having sent in between (write_through stamps the stale cache with the new epoch)",
    "C15-r3-1": "a reader on another thread colliding with two back-to-back time updates (unvalidated slow path read_after_write)",
    "C15-r3-2": "a step that fails after time advanced: panic, deadlock, timeout (time rolled back to the previous value)",
    "C16-r3-1": "a sub-model sending to a dead mailbox (NoRecipient names the parent: observers are registered parent-first, names children-first)",
    "C16-r3-2": "a sub-model added with a fresh mailbox that receives only through addresses it hands out itself (temporary Address in an assertion closes the mailbox)",
    "C17-r3-1": "EventBuffer: write, partial read, overflowing writes, read (reader-side batch invisible to the capacity check)",
    "C17-r3-2": "EventSlot: a read landing inside a write (has_event flag consumed before try_lock)",
    "C18-r3-1": "a lag that does not terminate the run, then a step closer than that lag (synchronize skipped and a synthesized lag used)",
    "C18-r3-2": "set_clock_tolerance(..) before set_clock(..) (set_clock resets the tolerance)",
    "C19-r3-1": "single-threaded simulation failed by a panic, a model task still scheduled, a sender parked on that model's full mailbox (run queue cleared in Drop under a mutable borrow)",
    "C19-r3-2": "multi-threaded simulation dropped while the driver thread is unwinding (early return skips join and cancellation)",
    "C20-r3-1": "> 512 live entries, a full drain, new inserts, then an extract through a retained old key (release_if_drained resets next_epoch)",
    "C20-r3-2": "insert A(k), insert B(k), insert C(<k) (cached front pair demoted with a fresh epoch)",
    "C01-r4-1": "something (another thread, a scheduling Clock) calls Scheduler::schedule* during the final clock wait of a step_until that ends with nothing due (time committed only after the sync, outside the lock)",
    "C01-r4-2": "Scheduler::schedule(now, action) or schedule(Duration::ZERO, action) with a pre-built action (new helper checked_deadline rejects only time < now)",
    "C02-r4-1": "Output with >= 3 connections one of them filtered: a broadcast passing the filter, then one filtered out that meets a full mailbox (completion counted over all output slots, stale slot counted as done)",
    "C02-r4-2": "Output with exactly two connections, the first-connected recipient's mailbox full, the second with room (new PairBroadcastFuture returns Ready without checking the first)",
    "C03-r4-1": "Output with >= 2 accepting connections, an earlier broadcast on it, then a broadcast where one mailbox is full (slot clearing moved to the query path only)",
    "C03-r4-2": "connect through a port handle, then clone it, then send through the clone (hand-written Clone tags the stale cache with the current shared epoch)",
    "C04-r4-1": "Output with >= 2 connections, one earlier completed broadcast, then a saturated target mailbox (slots cleared only when the future was cancelled)",
    "C04-r4-2": "mailbox capacity >= 2, two sends blocked on it, the receiver popping twice before the first woken sender re-pushes (notify only if the queue was full)",
    "C05-r4-1": "a task cancelled during a poll, no other wake in that poll, and a wake landing during the future's drop (runnable_exists without the CLOSED term + Task::wake gated on it)",
    "C05-r4-2": "cancel of an idle task racing a wake of the same task within a few nanoseconds (load then unconditional fetch_xor fast path)",
    "C06-r4-1": "a bench with sub-models and a stall in a sub-model or its parent (observers paired with model_names by position: orders differ)",
    "C06-r4-2": "a sender that blocks on a full mailbox and later resumes (slow path no longer counts the message: negative count / missed deadlock)",
    "C07-r4-1": ">= 2 origins with events at the same time, the origin with >= 2 events not sorting first (current_key no longer advances to the next origin)",
    "C07-r4-2": "a periodic event and a same-origin event scheduled between two occurrences for the time of the later one (in-place re-arm keeps the old epoch)",
    "C08-r4-1": "a Scheduler::schedule* call from another thread during the final clock wait of step_until (time write moved into a post-sync helper, outside the lock)",
    "C08-r4-2": "Scheduler::schedule with a pre-built keyed periodic action of zero period (period() default not overridden for the keyed variant)",
    "C09-r4-1": "a cancelled EventSource keyed action at position >= 3 of a same-time batch from the global scheduler (inner loop peeks the raw queue)",
    "C09-r4-2": "a keyed periodic occurrence already in the mailbox, cancelled by an earlier event of the same model at the same time (key checked only when spawning)",
    "C10-r4-1": "more coinciding same-origin periodic actions than the target mailbox holds (SeqFuture advances before polling)",
    "C10-r4-2": "a cancelled keyed action still at the head of the queue ahead of a periodic occurrence, time advanced with step_until (idle fast path treats a cancelled head as idle)",
    "C11-r4-1": "a panic or failed send raised by a model that owns sub-models (ModelId taken before build())",
    "C11-r4-2": "clock tolerance, step_until with an empty queue, lag above the tolerance, then any further call (third copy of the tolerance block omits is_terminated)",
    "C12-r4-1": "mailbox closed (or closed and drained) and len() read at equal indices (carry test rewritten without masking the closed flag)",
    "C12-r4-2": "capacity >= 2 and >= 2 senders waiting at once (notify_one only when the queue was full when popped)",
    "C13-r4-1": "cancel during a poll that returns Pending with no further wake, and the last handle released in that window (runnable_exists without the CLOSED term)",
    "C13-r4-2": "a task polled once, CancelToken dropped without cancel, no Promise, then the single waker consumed with wake() (sole-handle fast path drops instead of scheduling)",
    "C14-r4-1": ">= 2 accepting repliers, a reply iterator dropped before it was drained, then a sub-future pending at first poll (slots cleared only for cancelled futures)",
    "C14-r4-2": "a clone with an out-of-date list sending while another clone holds the shared lock for its own refresh (try_lock failure returns the stale cache)",
    "C15-r4-1": "cross-thread schedule_periodic_event racing a step (time read and deadline check hoisted above the queue lock in that sibling only)",
    "C15-r4-2": "clock tolerance, step_until to a target with nothing due, lag above the tolerance on that final sync (time rolled back after it was published)",
    "C16-r4-1": "a panic or missing recipient in a model that owns sub-models (ModelId taken before build())",
    "C16-r4-2": "a sub-model whose name starts with its parent's qualified name, e.g. pump / pump_controller (prefix test without separator skips qualification)",
    "C17-r4-1": "a zero-sized event type and more than `capacity` writes between reads (bound taken from VecDeque::capacity(), usize::MAX for ZSTs)",
    "C17-r4-2": "a partial read that leaves events pending, then enough writes to overflow (reader-side batch invisible to the capacity check)",
    "C18-r4-1": "step_until ending on the no-more-events branch with a concurrent schedule call during the final sync (sync before the time write, lock dropped)",
    "C18-r4-2": "a tolerated lag followed by events scheduled within that lag (catch-up fast path skips the clock)",
    "C19-r4-1": "Output/Requestor with >= 2 connections, NoRecipient on one of them while another sender future is unpolled or pending, then the failed simulation dropped (futures released only on the success paths)",
    "C19-r4-2": "single-threaded executor, a failed run leaving a task queued, another model blocked on that model's full mailbox (run queue cleared in Drop under a mutable borrow)",
    "C20-r4-1": "insert, extract that newest entry, insert again, extract with the old key (next_epoch rolled back in extract)",
    "C20-r4-2": ">= 3 inserts, pulls leaving exactly one item, then an insert with that item's key (next_epoch reset when len <= 1)",
    "C01-r5-1": "non-keyed periodic event scheduled with Duration::ZERO or an absolute deadline equal to now (`>=` became `>` in that sibling only)",
    "C01-r5-2": "Scheduler::schedule_keyed_event on another thread while a step advances time between the time read and the queue lock",
    "C02-r5-1": ">= 2 origins with actions at the same time, the later-sorting origin having >= 2 (batch key stays on the first origin: separate tasks, LIFO on one thread)",
    "C02-r5-2": "a model mixing schedule_keyed_periodic_event with another scheduling method for the same time (key filed under the global origin)",
    "C03-r5-1": "Output with >= 2 model recipients, a second or later broadcast that finds the last recipient's mailbox full (last slot not cleared: off-by-one)",
    "C03-r5-2": "clone an Output, let the model's clone send once, then connect through the retained clone (new epoch computed from the caller's cached epoch)",
    "C04-r5-1": "an Output connected >= 3 times to the same model whose mailbox is full (take_scheduled(pending_count): countdown never expires with one notify_one)",
    "C04-r5-2": "multi-threaded: a worker's 256-slot local queue overflowing while the injector is empty (was_empty taken from the pushed bucket: flag never cleared)",
    "C05-r5-1": "~2^31 leaked waker clones, then drops of live clones and a cross-thread wake in the same poll (overflow guard masked with REF_CRITICAL)",
    "C05-r5-2": "weak memory model only (loom): end-of-poll fetch_sub Acquire instead of AcqRel loses the release edge between consecutive polls on different workers",
    "C06-r5-1": "a single-threaded simulation run inside a handler of an outer simulation that has a message in flight on that thread (stash restored from the wrong value)",
    "C06-r5-2": "deadlock on a partially filled mailbox whose capacity is not a power of two (index mask buffer.len()-1 in Queue::len)",
    "C07-r5-1": ">= 2 origins at the same instant, the later-sorting one with >= 2 events (batch key not advanced)",
    "C07-r5-2": "> 2^32 cumulated insertions into the scheduler queue with same-time same-origin events across the wrap (Item.epoch narrowed to u32)",
    "C08-r5-1": "a Scheduler::schedule* call landing between the unlock of the step and the re-lock of the final jump (re-check compares with the current time instead of the target)",
    "C08-r5-2": "keyed one-shot event with a deadline equal to the current time (`>=` became `>` in that sibling only)",
    "C09-r5-1": ">= 2 origins at the same time stamp, cancelling and cancelled events not in the first origin group (stale batch key: not chained)",
    "C09-r5-2": "a keyed periodic occurrence sharing time stamp and origin with the action that cancels it (into_future passes a fresh ActionKey)",
    "C10-r5-1": "a keyed periodic occurrence coinciding (same time, same origin) with an action that cancels it (into_future passes a fresh ActionKey: fires once more)",
    "C10-r5-2": "a periodic action with a period below 1 microsecond (re-arm period clamped with max(1us))",
    "C11-r5-1": "a fault raised by a model that owns sub-models (ModelId taken before build())",
    "C11-r5-2": "two single-threaded simulations driven from one thread, the first killed by a model fault, then a scheduler-side NoRecipient in the second (CURRENT_MODEL_ID read with get() instead of take())",
    "C12-r5-1": "push.., close, len (closed flag leaks into the enqueue index: mask right_mask instead of right_mask >> 1)",
    "C12-r5-2": ">= capacity pushes ever, close, drain, pop (closed test compares with the masked index: Empty forever instead of Closed)",
    "C13-r5-1": "a scheduled task woken a second time (even, non-zero wake count), then a handle released (runnable_exists tests only the lowest wake bit)",
    "C13-r5-2": "cancel() as the very last handle operation on a Closed task (output dropped when POLLING == 0 instead of CLOSED == 0)",
    "C14-r5-1": "connect via clone A, send via clone B, connect again via A or a fresh clone, send via B (epoch from the writer's cache)",
    "C14-r5-2": "a query to >= 2 repliers whose reply iterator is only partly consumed, then another query (last slot never cleared)",
    "C15-r5-1": "a reader on another thread overlapping a time update (first sequence store adds 2: the count is never odd)",
    "C15-r5-2": "weak memory model only (loom): first sequence load Relaxed instead of Acquire",
    "C16-r5-1": "a panic or missing recipient in a parent or mid-level model of a hierarchy (ModelId taken before build())",
    "C16-r5-2": "a model's init sending more events through a multi-connection output than the last recipient's mailbox holds (last slot not cleared)",
    "C17-r5-1": "EventBuffer::with_capacity_closed with capacity < 16, reopened and overflowed (capacity.max(DEFAULT_CAPACITY))",
    "C17-r5-2": "connect a sink, clone the output, let the model send, connect another sink through the idle clone, send again (epoch from the local cache)",
    "C18-r5-1": "tolerance set, step_until ending on a time with no event, clock lag exactly equal to the tolerance (`>` became `>=` on the final jump only)",
    "C18-r5-2": "over-tolerance lag at a time with events, caller continues after the OutOfSync error (is_terminated = false: the refused time's actions run at the next call)",
    "C19-r5-1": "multi-threaded: a model panic on another worker makes the step fail while worker #0 is still inside a long handler, then drop (drain(1..): worker #0 not joined)",
    "C19-r5-2": "a task scheduled but not yet run when the executor cancels it: tasks waking one another during drop, or a failed simulation with queued tasks (token reference never released: task allocation leaked)",
    "C20-r5-1": "a pull between two equal-key inserts, the queue having been longer when the older one went in (epoch taken from heap.len())",
    "C20-r5-2": "IndexedPriorityQueue::peek after a slab slot freed by pull/extract was reused (slab indexed with key.epoch instead of slab_idx)",
    "C04-r6-1": "multi-threaded: > ~257 tasks made runnable from one worker without a concurrent steal (local queue drains QUEUE_SIZE tasks into a bucket that keeps 128: the rest are dropped, i.e. cancelled)",
    "C04-r6-2": "Output with >= 2 receivers, an earlier broadcast, and a full mailbox on the last-connected receiver (last slot not cleared)",
    "C13-r6-1": "a cancel landing during the very poll that returns Ready, another handle (Promise) still alive, an output with drop glue (the Ready-path update tests the state captured on entry)",
    "C13-r6-2": "Closed task whose last handle is a Waker consumed by value (output dropped when POLLING == 0 instead of CLOSED == 0)",
    "C14-r6-1": ">= 2 repliers accept and the query future is re-polled while idle an odd number of times (empty test on the whole head word erases the notification request)",
    "C14-r6-2": "a first query accepted by 3 repliers cancelled after one poll, a second accepted by 2, the late reply of the first arriving meanwhile (TaskSet resized to the number of connections)",
    "C15-r6-1": "a reader whose two loads straddle the writer's secs/nanos stores and which re-checks before the writer's final store (final comparison masks the low bit)",
    "C15-r6-2": "weak memory model only (loom): reader-side fence Release instead of Acquire",
    "C12-r6-1": "a mailbox whose number of accepted messages is not a multiple of its capacity, then Receiver::close() or the drop of the last Sender (is_closed tests right_mask: close becomes a no-op)",
    "C12-r6-2": "weak memory model only (loom): the slot release store in MessageBorrow::drop Relaxed instead of Release, with slot reuse",
    "C20-r6-1": "two keyed removals in a particular arrangement, e.g. insert 5, insert 9, insert 3, extract(9), extract(3) (sift_up compares key components instead of the UniqueKey)",
    "C20-r6-2": "exactly a multiple of 2^32 insertions between issuing a key and the reuse of its slot (epochs compared after `as u32`)",
    "C02-r8-1": ">= 2 origins with events at the same time, an origin other than the smallest key having >= 2 of them (batch key stuck on the first origin)",
    "C02-r8-2": "items pulled between two inserts of equal (time, origin) keys (tie-break epoch taken from the heap length)",
    "C08-r8-1": "another thread scheduling through Scheduler::schedule while step() advances time (now read before the queue lock is taken)",
    "C08-r8-2": "simulation time >= 2^31 s from the epoch (seconds stored in an AtomicI32)",
    "C07-r8-1": "a model mixing a non-keyed periodic self-event with another self-scheduled event for the same time (periodic one queued under the global origin)",
    "C07-r8-2": "a keyed one-shot and a non-keyed event from the global Scheduler for the same model and time (keyed one queued under the target's channel id)",
    "C10-r8-1": "keyed periodic occurrence sharing time and origin with an earlier action that cancels it (into_future passes a fresh key)",
    "C10-r8-2": "keyed periodic action left running for >= 3 occurrences (re-armed clone is a one-shot)",
    "C16-r8-1": "a clone of a shared Output sends (sub-model init), another clone connects a new port, the first clone sends again (write() derives the epoch from its own cache)",
    "C16-r8-2": "SimInit::with_num_threads(0) (lower clamp bound 0: empty worker pool)",
    "C18-r8-1": "AutoSystemClock with a start time other than MonotonicTime::EPOCH (anchored on EPOCH instead of the first deadline)",
    "C18-r8-2": "step_until whose deadline coincides with an event time, with a clock that observes calls (second synchronize(target) after the model code ran)",
    "C01-r7-1": "step_until with an absolute deadline in the past but within the same whole second as the current time (guard compares as_secs())",
    "C01-r7-2": "keyed periodic action, period not a whole number of milliseconds, >= 3 occurrences (the re-armed clone carries a truncated period)",
    "C03-r7-1": "Output with >= 2 receivers, an earlier broadcast on the port, the last-connected receiver's mailbox full at the first poll (last reused slot keeps a stale Some)",
    "C03-r7-2": "fan-out >= 2 where a sender future has to wait for mailbox space (the cloned broadcaster's task set notifies the original's wake sink: nobody is registered there)",
    "C06-r7-1": "Mailbox::with_capacity(n), n not a power of two, partially filled at the stall (Queue::len masks with capacity-1)",
    "C06-r7-2": "a hierarchical bench (add_submodel) that deadlocks: names taken from model_names at the observer's position (different registration orders)",
    "C09-r7-1": "periodic keyed event scheduled from a model, an earlier same-time event of that model cancelling it, multi-threaded executor (scheduled under the global origin id)",
    "C09-r7-2": "a lone keyed one-shot event (spawn_and_forget path) cancelled during its own step by an event the model processes first (generator gets a fresh key)",
    "C11-r7-1": "the failing model owns sub-models (its ModelId is taken before build() registers them)",
    "C11-r7-2": "single-threaded executor on the caller's thread: a first simulation panics, a second model-less simulation on the same thread then hits a dropped mailbox (CURRENT_MODEL_ID not cleared)",
    "C17-r7-1": "EventBuffer::with_capacity_closed(n > 16), opened later, > 16 events between reads",
    "C17-r7-2": "EventSlot::close() followed by a write before open() (close stores true)",
    "C19-r7-1": "a driver-side query reply written but never read: ReplyReceiver dropped without take(), or the step fails after the reply (SlotReader::drop tests state == POPULATED)",
    "C19-r7-2": "a task woken twice while scheduled (join of two sends on two full mailboxes, both receivers dropped) then cancelled by drop(simu) (runnable_exists tests WAKE_INC instead of WAKE_MASK)",
    "C19-2": "output with >= 2 connections, a full target mailbox, simulation dropped while the broadcast is pending (ManuallyDrop not released)",
}


def _needs_from_notes(d):
    """first sentence of the notes that says what is needed to manifest (fallback)."""
    p = os.path.join(d, "notes.md")
    if not os.path.exists(p):
        return "see notes.md"
    txt = open(p).read()
    import re
    m = re.search(r"(?is)(needs?|needed|to manifest|manifests?)[^\n]{0,20}[:\-]?\s*([^\n]{20,300})", txt)
    return ("see notes.md: " + m.group(0).strip()[:300]) if m else "see notes.md"


def main():
    os.makedirs(DST, exist_ok=True)
    n = 0
    for cj in sorted(glob.glob(os.path.join(SRC, "C*", "*", "confirm.json")) + glob.glob(os.path.join("/tmp/mutout2", "C*", "*", "confirm.json")) + glob.glob(os.path.join("/tmp/mutout3", "C*", "*", "confirm.json")) + glob.glob(os.path.join("/tmp/mutout4", "C*", "*", "confirm.json")) + glob.glob(os.path.join("/tmp/mutout5", "C*", "*", "confirm.json")) + glob.glob(os.path.join("/tmp/mutout6", "C*", "*", "confirm.json")) + glob.glob(os.path.join("/tmp/mutout7", "C*", "*", "confirm.json")) + glob.glob(os.path.join("/tmp/mutout8", "C*", "*", "confirm.json"))):
        d = os.path.dirname(cj)
        c = json.load(open(cj))
        sid = c["id"]
        ok = c["applies"] in ("yes", "3way") and c["builds"] == "yes" and c["suite_with_change"] == "pass" and \
            c["demo_with_change"] == "fail" and c["demo_without_change"] == "pass"
        if not ok:
            print("NOT CONFIRMED", sid, c)
            continue
        out = os.path.join(DST, sid)
        os.makedirs(out, exist_ok=True)
        for f in os.listdir(d):
            if f.endswith((".diff", ".rs", ".md")) or f == "place.json":
                shutil.copy(os.path.join(d, f), os.path.join(out, f))
        files = sorted(set(l[6:].strip() for l in open(os.path.join(d, "patch.diff")) if l.startswith("+++ b/")))
        demos = sorted(f for f in os.listdir(out) if f.endswith(".rs") or f == "demo.diff")
        meta_path = os.path.join(out, "meta.json")
        old = json.load(open(meta_path)) if os.path.exists(meta_path) else {}
        meta = {
            "id": sid,
            "breaks_property": sid.split("-")[0],
            "files_changed": files,
            "needs_to_manifest": NEEDS.get(sid, old.get("needs_to_manifest") or _needs_from_notes(d)),
            "round": 8 if "-r8-" in sid else 7 if "-r7-" in sid else 6 if "-r6-" in sid else 5 if "-r5-" in sid else 4 if "-r4-" in sid else (3 if "-r3-" in sid else (2 if "-r2-" in sid else 1)),
            "demonstration": demos,
            "confirmed_by_me": {
                "how": "tools/confirm_seed.sh on a scratch git worktree of /repo at %s (removed afterwards): git apply patch.diff; cargo build --workspace; "
                       "cargo test --workspace --no-fail-fast (wall-clock tolerance tests retried serially when the machine was loaded); demonstration with the "
                       "patch; git apply -R; demonstration without the patch" % c.get("repo_head"),
                "patch_applies": c["applies"],
                "builds": c["builds"],
                "existing_suite_with_change": c["suite_with_change"],
                "demo_with_change": c["demo_with_change"],
                "demo_without_change": c["demo_without_change"],
            },
            "origin": "independent sub-agent given only the property text and a scratch worktree (nothing from /verif)",
            "caught_by": old.get("caught_by", {}),
        }
        json.dump(meta, open(meta_path, "w"), indent=1)
        n += 1
    print("imported", n)


if __name__ == "__main__":
    main()
