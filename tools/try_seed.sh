#!/bin/sh
# usage: try_seed.sh <patch.diff> <pid> [<pid>...]   -- applies the patch to /repo, runs the quick checks, reverts.
patch="$1"; shift
cd /repo || exit 2
if ! git diff --quiet; then echo "/repo is dirty"; exit 2; fi
if ! git apply --check "$patch" 2>/dev/null; then
  if git apply --3way --check "$patch" 2>/dev/null; then :; else echo "PATCH DOES NOT APPLY: $patch"; exit 3; fi
fi
git apply "$patch" || git apply --3way "$patch"
cd /verif
for p in "$@"; do
  out=$(./check "$p" 2>&1); rc=$?
  echo "== $p rc=$rc"; echo "$out" | grep -E "violated:|VIOLATION|OK property|extraction failed|error" | cut -c1-260 | head -12
done
cd /repo && git checkout -q -- . && git status --short | head -3
