#!/usr/bin/env python3
"""Developer self-test: apply one textual mutation to a scratch worktree (/tmp/scratch), run checks, revert.
usage: mt.py <pids comma-sep> <file relative to repo> <old text> <new text> [count]"""
import subprocess, sys, os
W = "/tmp/scratch"
pids, f, old, new = sys.argv[1:5]
p = os.path.join(W, f)
subprocess.run(["git", "-C", W, "checkout", "-q", "--", "."], check=True)
s = open(p).read()
if old not in s:
    print("OLD TEXT NOT FOUND"); sys.exit(2)
s = s.replace(old, new, 1)
open(p, "w").write(s)
try:
    for pid in pids.split(","):
        r = subprocess.run(["/verif/check", pid, "--repo", W], capture_output=True, text=True)
        lines = [l for l in r.stdout.splitlines() if l.startswith(("  violated", "VIOLATION", "OK", "extraction failed")) or "error" in l]
        print("== %s rc=%d" % (pid, r.returncode))
        for l in lines[:10]:
            print(l[:250])
finally:
    subprocess.run(["git", "-C", W, "checkout", "-q", "--", "."], check=True)
