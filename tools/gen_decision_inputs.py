#!/usr/bin/env python3
"""Regenerates nx/rules/decision_inputs.json from the current /repo tree (union over the three configurations).
A manual, reviewed step: never run by a check. Read the diff of the JSON before committing it."""
import json, os, sys
sys.path.insert(0, os.path.dirname(os.path.dirname(os.path.abspath(__file__))))
from nx import extract
from nx.core import Program
from nx.rules import mustpass

out = {}
for cfg in ("default", "tracing", "full"):
    recs, info = extract.extract(cfg)
    P = Program(recs)
    for g in mustpass.COMMIT_GROUPS:
        today, _ = mustpass.decision_inputs_today(P, g)
        dst = out.setdefault(g, {})
        for k, v in today.items():
            dst[k] = sorted(set(dst.get(k, [])) | v)
json.dump(out, open(mustpass._DI_PATH, "w"), indent=1, sort_keys=True)
print({g: len(v) for g, v in out.items()})
