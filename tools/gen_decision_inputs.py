#!/usr/bin/env python3
"""Regenerates nx/rules/decision_inputs.json from the current /repo tree (union over the three configurations).
A manual, reviewed step: never run by a check. Read the diff of the JSON before committing it."""
import json, os, sys
sys.path.insert(0, os.path.dirname(os.path.dirname(os.path.abspath(__file__))))
from nx import extract
from nx.core import Program
from nx.rules import mustpass

out = {}
counts = {}
for cfg in ("default", "tracing", "full"):
    recs, info = extract.extract(cfg)
    P = Program(recs)
    for g in mustpass.COMMIT_GROUPS:
        today, sites = mustpass.decision_inputs_today(P, g)
        dst = out.setdefault(g, {})
        cnt = counts.setdefault(g, {})
        for k, v in today.items():
            dst[k] = sorted(set(dst.get(k, [])) | v)
            # number of sites of that effect in that function: the minimum over the configurations that have the function
            n = len(sites[k])
            cnt[k] = min(cnt.get(k, n), n)
out["__counts__"] = counts
json.dump(out, open(mustpass._DI_PATH, "w"), indent=1, sort_keys=True)
print({g: len(v) for g, v in out.items() if g != "__counts__"})
