#!/bin/bash
# usage: confirm_seed.sh <seed-src-dir> <id>    e.g. confirm_seed.sh /tmp/mutout/C01/1 C01-1
# Confirms in a scratch worktree: patch applies+builds, existing suite passes with it, demo fails with it, demo passes without.
# Writes <seed-src-dir>/confirm.json
src="$1"; id="$2"
wt=/tmp/confirm/$id; tgt=${CONFIRM_TGT:-/tmp/confirm/$id-target}
mkdir -p /tmp/confirm; rm -rf "$wt"; [ -z "$CONFIRM_TGT" ] && rm -rf "$tgt"
git -C /repo worktree add -q "$wt" HEAD || exit 2
cd "$wt"
res() { python3 - "$@" <<'PY'
import json,sys
d=dict(a.split('=',1) for a in sys.argv[2:])
json.dump(d,open(sys.argv[1],'w'),indent=1)
PY
}
applies=no; builds=no; suite=unknown; demo_with=unknown; demo_without=unknown
if git apply --check "$src/patch.diff" 2>/dev/null; then git apply "$src/patch.diff"; applies=yes;
elif git apply --3way "$src/patch.diff" 2>/dev/null; then applies=3way; fi
if [ "$applies" != no ]; then
  export CARGO_TARGET_DIR="$tgt"
  if cargo build --offline --workspace >/dev/null 2>&1; then builds=yes; fi
  if [ "$builds" = yes ]; then
    out=$(cargo test --offline --workspace --no-fail-fast 2>&1)
    fails=$(echo "$out" | grep -E "^test .* FAILED" | grep -v "^test result" | grep -v "system_clock\|auto_system_clock\|clock_sync" | wc -l)
    clockfails=$(echo "$out" | grep -E "^test .* FAILED" | grep -v "^test result" | grep "system_clock\|auto_system_clock\|clock_sync" | wc -l)
    nres=$(echo "$out" | grep -c "^test result")
    if [ "$fails" = 0 ] && [ "$clockfails" != 0 ]; then
      # wall-clock tests are load sensitive: retry them serially
      # (the machine may be loaded by other jobs: up to 4 serial attempts, one green attempt is enough)
      for attempt in 1 2 3 4; do
        out2=$(cargo test --offline -p nexosim --test integration -- --test-threads=1 simulation_scheduling simulation_clock_sync 2>&1)
        fails=$(echo "$out2" | grep -E "^test .* FAILED" | grep -v "^test result" | grep -v "system_clock_from_instant_mt" | wc -l)
        [ "$fails" = 0 ] && break
        sleep 5
      done
    fi
    if [ "$fails" = 0 ] && [ "$nres" -ge 4 ]; then suite=pass; else suite="fail:$(echo "$out" | grep -E '^test .* FAILED' | grep -v '^test result' | head -3 | tr '\n' ';')"; fi
    # demos
    demos=""
    if [ -f "$src/place.json" ]; then
      # explicit placement: {"copies": {file: dest}, "hooks": [diff, ...], "append": {file: text}, "test_args": "..."}
      export CONFIRM_ID="$id"
      demos=$(python3 - "$src" <<'PY'
import json,sys,shutil,subprocess,os
src=sys.argv[1]
pl=json.load(open(os.path.join(src,"place.json")))
for f,d in pl.get("copies",{}).items():
    os.makedirs(os.path.dirname(d),exist_ok=True); shutil.copy(os.path.join(src,f),d)
for h in pl.get("hooks",[]):
    subprocess.check_call(["git","apply",os.path.join(src,h)])
for f,t in pl.get("append",{}).items():
    open(f,"a").write(t)
open("/tmp/confirm/%s-env.sh" % os.environ.get("CONFIRM_ID","x"),"w").write("".join("export %s=%s\n" % (k, json.dumps(v)) for k,v in pl.get("env",{}).items()))
print(pl["test_args"])
PY
)
      [ -f /tmp/confirm/$id-env.sh ] && . /tmp/confirm/$id-env.sh
    elif [ -f "$src/demo.diff" ]; then
      git apply "$src/demo.diff" && demos="--lib $(basename $(ls "$src"/demo_*.rs | head -1) .rs)"
    else
      for f in "$src"/*.rs; do [ -f "$f" ] || continue; cp "$f" nexosim/tests/; demos="$demos --test $(basename "$f" .rs)"; done
    fi
    if [ -n "$demos" ]; then
      if timeout 600 cargo test --offline -p nexosim $demos >/tmp/confirm/$id-with.log 2>&1; then demo_with=pass; else demo_with=fail; fi
      git apply -R "$src/patch.diff" 2>/dev/null || { echo "REVERT FAILED" >> /tmp/confirm/$id-with.log; }
      if timeout 600 cargo test --offline -p nexosim $demos >/tmp/confirm/$id-without.log 2>&1; then demo_without=pass; else demo_without=fail; fi
    else demo_with=nodemo; fi
  fi
fi
res "$src/confirm.json" id="$id" applies="$applies" builds="$builds" suite_with_change="$suite" demo_with_change="$demo_with" demo_without_change="$demo_without" repo_head="$(git -C /repo rev-parse --short HEAD)"
cd /; git -C /repo worktree remove --force "$wt"; [ -z "$CONFIRM_TGT" ] && rm -rf "$tgt"
cat "$src/confirm.json"
