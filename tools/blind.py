#!/usr/bin/env python3
"""Blind first-run test of freshly delivered seeds: tools/blind.py <outdir> <round> Cxx [Cyy ...]
Applies <outdir>/Cxx/{1,2}/patch.diff to /repo, runs the property's own quick check, reverts, and records the first result in
seeded/ROUND<round>.json (only if the seed has no entry yet: a first run is recorded once)."""
import json, os, subprocess, sys
out, rnd = sys.argv[1], sys.argv[2]
path = "/verif/seeded/ROUND%s.json" % rnd
rec = json.load(open(path)) if os.path.exists(path) else {"_comment": "Blind round %s: first result of the property's own check on each patch, recorded by tools/blind.py before any rule was touched in reaction to it." % rnd}
def sh(c, cwd=None):
    return subprocess.run(c, shell=True, cwd=cwd, capture_output=True, text=True)
assert sh("git status --porcelain", "/repo").stdout.strip() == "", "/repo dirty"
for pid in sys.argv[3:]:
    for n in ("1", "2"):
        d = os.path.join(out, pid, n)
        sid = "%s-r%s-%s" % (pid, rnd, n)
        if not os.path.exists(os.path.join(d, "patch.diff")):
            print(sid, "no patch"); continue
        a = sh("git apply %s/patch.diff" % d, "/repo")
        if a.returncode != 0:
            print(sid, "PATCH DOES NOT APPLY", a.stderr[:200]); sh("git reset -q --hard HEAD", "/repo"); continue
        try:
            c = sh("./check %s --tier quick" % pid, "/verif")
        finally:
            sh("git reset -q --hard HEAD", "/repo")
        keys = [l.split("[", 1)[1].split("]", 1)[0] for l in c.stdout.splitlines() if l.startswith("  violated: [")]
        files = sorted(set(l[6:].strip() for l in open(os.path.join(d, "patch.diff")) if l.startswith("+++ b/")))
        res = "caught" if c.returncode != 0 else "missed"
        print(sid, res, files, keys[:4])
        if sid not in rec:
            rec[sid] = {"first_run": res, "files": files}
            if keys:
                rec[sid]["by"] = keys[:6]
json.dump(rec, open(path, "w"), indent=1)
# restore the evidence of the unchanged tree
for pid in sys.argv[3:]:
    sh("./check %s --tier quick" % pid, "/verif")
