#!/usr/bin/env python3
"""Regenerates /verif/MANIFEST.json from the rule modules present in nx/rules."""
import importlib
import json
import os
import sys

HERE = os.path.dirname(os.path.dirname(os.path.abspath(__file__)))
sys.path.insert(0, HERE)

props = [json.loads(l) for l in open(os.path.join(HERE, "properties.jsonl"))]
checks = []
na = []
served = []
for p in props:
    pid = p["id"]
    path = os.path.join(HERE, "nx", "rules", pid.lower() + ".py")
    if not os.path.exists(path):
        na.append({"property_id": pid, "reason": "no static rule set armed yet for this property (see DESIGN.md section 7)"})
        continue
    mod = importlib.import_module("nx.rules." + pid.lower())
    served.append(pid)
    checks.append(
        {
            "property_id": pid,
            "quick_cmd": "./check %s --tier quick" % pid,
            "thorough_cmd": "./check %s --tier thorough" % pid,
            "evidence_file": "/verif/evidence/%s.json" % pid,
            "replay_cmd_template": "./check %s --replay {path}" % pid,
            "engine": "nxfacts+nxrules",
            "level_claimed": {
                "category": "other",
                "text": getattr(mod, "LEVEL_TEXT", mod.EXPLANATION) + " Clauses evaluated (rule id: what it decides): " + "; ".join(
                    "%s: %s" % (r[0], r[1]) for r in sorted(mod.RULES, key=lambda r: r[0])) + ".",
                "design_ref": "DESIGN.md section 5 (%s), sections 6-7" % pid,
            },
            "level_note": getattr(
                mod,
                "LEVEL_NOTE",
                "Trusted: rustc's type checker and MIR construction, the fact extractor, std/dependency contracts, and the "
                "rule catalog (which clauses are necessary). Path-insensitive except for guard polarity; infeasible paths can only "
                "make a rule stricter. The behavioural remainder of the property (runtime schedules/interleavings) is NOT decided.",
            ),
            "technique": getattr(
                mod, "TECHNIQUE", "static analysis: custom MIR dataflow / dominance / post-dominance (must-pass-through) / guard-implication / lock-held / ordering-floor rules, who-may-call and state-mutation inventories, branch-commit and decision-input census over rustc's type-checked program (rustc_private driver); compile_fail witnesses with compiling twins in the thorough tier"
            ),
        }
    )
man = {
    "version": 1,
    "setup_cmd": "./setup.sh",
    "hooks": {
        "guard": "nexosim_verif",
        "enable": "none needed: the checks are purely static (no instrumentation of /repo); the cfg name is reserved and unused",
        "baseline_off_cmd": "cd /repo && cargo test --workspace --no-fail-fast --offline",
        "source_commits": [],
        "add_only": True,
    },
    "engines": [
        {
            "name": "nxfacts",
            "path": "/verif/driver",
            "serves_properties": served,
            "kind_free_text": "rustc_private driver injected with RUSTC_WORKSPACE_WRAPPER under cargo +nightly check; serialises mir_built bodies, ADTs, impls and trait facts of /repo's current tree",
        },
        {
            "name": "nxrules",
            "path": "/verif/nx",
            "serves_properties": served,
            "kind_free_text": "Python rule engine: CFG, dominators/post-dominators, natural loops, reaching definitions, value origins, guard conditions, lock-held dataflow, call graph, fact-level inlining of unknown helpers; per-property rule modules in nx/rules plus shared tables (ordering floors, inventories, must-pass entries, decision inputs)",
        },
    ],
    "checks": checks,
    "not_applicable": na,
    "notes": "All checks are static: nothing of /repo is executed. Six genuine defects were found and repaired in /repo ('fix:' commits 13746ce, a89a5c3, ef69618, 6d8549d, 6b8fb82, 3370f28), see known_findings.json and DESIGN.md section 4. Every property is claimed for the structural clauses listed in DESIGN.md section 5 only; the behavioural remainder of each property is listed as not decided in DESIGN.md section 7 and in each check's level text.",
}
with open(os.path.join(HERE, "MANIFEST.json"), "w") as f:
    json.dump(man, f, indent=1)
    f.write("\n")
print("checks:", served, "n/a:", [x["property_id"] for x in na])
