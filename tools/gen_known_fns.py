#!/usr/bin/env python3
"""Regenerates nx/known_fns.json: the normalised names of every body of the current /repo tree (union over the three configurations).
A manual step (never run by a check): run it only on a tree whose functions the rules have been written / reviewed against."""
import json, os, sys
sys.path.insert(0, os.path.dirname(os.path.dirname(os.path.abspath(__file__))))
from nx import extract, inline
from nx.core import norm
names = set()
for cfg in ("default", "tracing", "full"):
    recs, info = extract.extract(cfg)
    for r in recs:
        if r["k"] == "body":
            names.add(norm(r["path"]))
json.dump(sorted(names), open(inline.KNOWN_PATH, "w"), indent=0)
print(len(names), "functions")
