#!/usr/bin/env python3
"""Developer self-test (not registered in MANIFEST): behaviour-preserving edits must stay silent, breaking edits must be reported.
Uses a scratch worktree of /repo under /tmp (created on demand, reset after each case)."""
import json, os, subprocess, sys
W = "/tmp/scratch"
HERE = os.path.dirname(os.path.abspath(__file__))

def sh(c, cwd=None):
    return subprocess.run(c, shell=True, cwd=cwd, capture_output=True, text=True)

def main():
    which = sys.argv[1] if len(sys.argv) > 1 else "benign"
    cases = json.load(open(os.path.join(HERE, which + ".json")))
    if len(sys.argv) > 2:
        cases = [c for c in cases if sys.argv[2] in c["name"]]
    if not os.path.isdir(W):
        sh("git -C /repo worktree add -q %s HEAD" % W)
    sh("git -C %s checkout -q --detach $(git -C /repo rev-parse HEAD) && git -C %s checkout -q -- ." % (W, W))
    bad = 0
    for c in cases:
        p = os.path.join(W, c["file"])
        s = open(p).read()
        edits = c.get("edits") or [[c["old"], c["new"]]]
        if any(o not in s for o, _ in edits):
            print("SKIP (old text not found):", c["name"]); bad += 1; continue
        for o, n in edits:
            s = s.replace(o, n, 1)
        open(p, "w").write(s)
        res = {}
        try:
            for pid in c["props"]:
                r = sh("/verif/check %s --repo %s" % (pid, W))
                res[pid] = (r.returncode, [l for l in r.stdout.splitlines() if l.startswith("  violated") or "extraction failed" in l][:3])
        finally:
            sh("git -C %s checkout -q -- ." % W)
        want_silent = which == "benign"
        for pid, (rc, lines) in res.items():
            ok = (rc == 0) if want_silent else (rc != 0 and not any("extraction failed" in l for l in lines))
            if not ok:
                bad += 1
            print("%-4s %s %s :: %s" % ("ok" if ok else "FAIL", pid, c["name"], "" if ok and want_silent else " | ".join(l.strip()[:150] for l in lines)))
    print("failures:", bad)
    sys.exit(1 if bad else 0)

main()
