"""C20 Priority queues: stable minimum extraction and non-aliasing keys — clauses a..d."""
from ..core import Site, TERM, norm, origin_calls, origin_proj_names, last_seg, Cond, origin_contains
from . import common as K

EXPLANATION = (
    "Decides: (a) the heap comparator of PriorityQueue is key.cmp(other.key).then_with(epoch.cmp(other.epoch)).reverse() "
    "with receivers taken from self and arguments from other, partial_cmp = Some(cmp), eq compares key and epoch; (b) both "
    "queues' insert store the current next_epoch in the new entry and then increment next_epoch by one (epoch strictly "
    "increasing, never reused), the entry carries the caller's key and value; pull/peek return the heap's top entry's key "
    "and value; (c) the indexed queue's UniqueKey derives Ord with field order (key, epoch); (d) extract removes an entry "
    "only on the branch where the slab slot is a live heap node whose stored epoch equals the epoch in the InsertKey, and "
    "the InsertKey returned by insert carries the inserted epoch and slab index. NOT decided: the sift-up/sift-down loop "
    "invariants of the hand-written heap and std's BinaryHeap (trusted)."
)
TRUSTED = K.TRUSTED

PQ = "util::priority_queue::"
IPQ = "util::indexed_priority_queue::"


def _field_of(o, argn, *names):
    want = ("arg", argn)
    for n in names:
        want = ("proj", want, ("f", n))
    return o == want


def rule_a(ctx):
    P = ctx.prog
    b = ctx.body("<util::priority_queue::Item as std::cmp::Ord>::cmp")
    if not b:
        return
    cmps = list(b.calls("^std::cmp::Ord::cmp$"))
    tw = list(b.calls("^std::cmp::Ordering::then_with$"))
    rv = list(b.calls("^std::cmp::Ordering::reverse$"))
    ok = len(cmps) == 1 and len(tw) == 1 and len(rv) <= 1
    ctx.ob("cmp|shape", ok, "Item::cmp is one key comparison refined by then_with(epoch comparison), reversed once (by .reverse() or by comparing other with self)", cmps + tw + rv)
    if ok:
        c, t = cmps[0], tw[0]

        def orient(body, site, field, resolved=False):
            get = (lambda op: P.resolved_origins(body, op, site)) if resolved else (lambda op: body.origins(op, site))
            x0, x1 = get(site.args()[0]), get(site.args()[1])
            if x0 == frozenset([("proj", ("arg", 1), ("f", field))]) and x1 == frozenset([("proj", ("arg", 2), ("f", field))]):
                return "self"
            if x0 == frozenset([("proj", ("arg", 2), ("f", field))]) and x1 == frozenset([("proj", ("arg", 1), ("f", field))]):
                return "other"
            return None
        ko = orient(b, c, "key")
        ctx.ob("cmp|key-first", ko is not None, "the primary comparison is between self.key and other.key", [c])
        ctx.ob("cmp|then-with-on-key-ordering", b.origins(t.args()[0], t) == frozenset([("call", c.b, "std::cmp::Ord::cmp")]),
               "then_with refines the key ordering", [t])
        # the tie-breaker closure
        eo = None
        for cb in P.children(b):
            cc = list(cb.calls("^std::cmp::Ord::cmp$"))
            if len(cc) == 1 and all(r_.is_term and r_.key() == cc[0].key() for r_ in K.ret_assigns(cb)):
                eo = orient(cb, cc[0], "epoch", resolved=True)
        ctx.ob("cmp|tie-break-epoch", eo is not None and eo == ko, "ties are broken by the epoch comparison, in the same direction as the keys (FIFO among equal keys)", [t])
        if rv:
            r = rv[0]
            chain = b.origins(r.args()[0], r) == frozenset([("call", t.b, "std::cmp::Ordering::then_with")]) and \
                all(x.is_term and x.key() == r.key() for x in K.ret_assigns(b))
            okr = chain and ko == "self"
        else:
            chain = all(x.is_term and x.key() == t.key() for x in K.ret_assigns(b))
            okr = chain and ko == "other"
        ctx.ob("cmp|reversed-once", okr,
               "the result is the reverse of the (key, epoch) ordering exactly once: self-with-other followed by .reverse(), or other-with-self (max-heap used as a min-heap)", rv or [t])
    pb = ctx.body("<util::priority_queue::Item as std::cmp::PartialOrd>::partial_cmp")
    if pb:
        cs = list(pb.calls("^std::cmp::Ord::cmp$"))
        ok = len(cs) == 1 and pb.origins(cs[0].args()[0], cs[0]) == frozenset([("arg", 1)]) and pb.origins(cs[0].args()[1], cs[0]) == frozenset([("arg", 2)])
        rets = K.ret_assigns(pb)
        ok = ok and all(not r.is_term and r.node["r"]["r"] == "agg" and r.node["r"].get("variant") == "Some" for r in rets) and bool(rets)
        ctx.ob("partial-cmp-is-cmp", ok, "partial_cmp = Some(self.cmp(other))", cs)


def _insert_epoch_rules(ctx, b, entry_adt, entry_epoch_path):
    name = b.name
    # the increment
    incs = []
    for s in b.assigns():
        pp = s.node["p"]["p"]
        if pp and pp[-1] != "*" and pp[-1][0] == "f" and pp[-1][2] == "next_epoch":
            incs.append(s)
    ctx.ob("insert|one-increment|%s" % name, len(incs) == 1 and not b.in_loop(incs[0]) if incs else False,
           "next_epoch is advanced exactly once per insert", incs)
    if len(incs) != 1:
        return
    inc = incs[0]
    vo = b.origins(inc.node["r"]["o"], inc) if inc.node["r"]["r"] == "use" else frozenset()
    ok = False
    for o in vo:
        rt, names = origin_proj_names(o)
        if rt[0] == "bin" and rt[1] in ("AddWithOverflow", "Add") and rt[3][0] == "const" and rt[3][1] == 1 and \
                origin_proj_names(rt[2])[1][-1:] == [("f", "next_epoch")]:
            ok = True
    ctx.ob("insert|increment-by-one|%s" % name, ok and not b.conditions(inc) or (ok and all(c.kind == "cmp" for c in b.conditions(inc))),
           "next_epoch += 1 unconditionally", [inc])
    # the epoch stored in the entry is next_epoch read before the increment
    aggs = [a for a in b.aggregates(adt=entry_adt)]
    if not aggs:
        return ctx.missing("construction of %s in %s" % (entry_adt, name))
    for a in aggs:
        fo = dict(zip(a.node["r"]["fields"], a.node["r"]["ops"]))
        if "epoch" not in fo:
            continue
        eo = b.origins(fo["epoch"], a)
        ok = eo == frozenset([("proj", ("arg", 1), ("f", "next_epoch"))])
        # the read must precede the increment: find the copy statement that read the field
        reads = [s for s in b.assigns() if s.node["r"]["r"] == "use" and s.node["r"]["o"].get("pl") and
                 s.node["r"]["o"]["pl"]["p"] and s.node["r"]["o"]["pl"]["p"][-1] != "*" and s.node["r"]["o"]["pl"]["p"][-1][2] == "next_epoch"
                 and not s.node["p"]["p"]]
        # reading before or after the single increment both give unique, strictly increasing epochs
        ok = ok and len(reads) == 1 and (b.dominates(reads[0], inc) or b.dominates(inc, reads[0]))
        ctx.ob("insert|entry-epoch-is-counter|%s|%s" % (name, last_seg(entry_adt)), ok,
               "the entry's epoch is the queue's next_epoch counter, read once per insert (unique, strictly increasing)", [a, inc])
        if "key" in fo:
            ko = b.origins(fo["key"], a)
            ctx.ob("insert|entry-key|%s|%s" % (name, last_seg(entry_adt)), ko == frozenset([("arg", 2)]), "the entry carries the caller's key", [a])
        if "value" in fo:
            ctx.ob("insert|entry-value|%s" % name, b.origins(fo["value"], a) == frozenset([("arg", 3)]), "the entry carries the caller's value", [a])


def rule_b(ctx):
    P = ctx.prog
    b = ctx.body(PQ + "PriorityQueue::insert")
    if b:
        _insert_epoch_rules(ctx, b, PQ + "Item", None)
        pushes = list(b.calls("^std::collections::BinaryHeap::push$"))
        ok = len(pushes) == 1 and all(o[0] == "agg" and o[3] == PQ + "Item" for o in b.origins(pushes[0].args()[1], pushes[0])) if pushes else False
        ctx.ob("insert|pushed|%s" % b.name, ok, "the new Item is pushed on the heap once", pushes)
    ib = ctx.body(IPQ + "IndexedPriorityQueue::insert")
    if ib:
        _insert_epoch_rules(ctx, ib, IPQ + "UniqueKey", None)
    # the epoch counters only ever grow: the single writer of next_epoch is the increment in insert
    writers = []
    for b in P.all_bodies():
        if not (b.name.startswith(PQ) or b.name.startswith(IPQ)) or "::tests" in b.name:
            continue
        for s in b.assigns():
            pp = s.node["p"]["p"]
            if pp and pp[-1] != "*" and pp[-1][0] == "f" and pp[-1][2] == "next_epoch":
                writers.append(s)
    allowed = {PQ + "PriorityQueue::insert", IPQ + "IndexedPriorityQueue::insert"}
    bad = [s for s in writers if s.body.name not in allowed]
    ctx.ob("epoch-counter-only-grows", len(writers) == 2 and not bad,
           "next_epoch is written only by the `+= 1` of insert (never reset or rewound: an epoch, and hence an InsertKey or a FIFO rank, "
           "is never issued twice)", bad or writers)
    # ... and no live queue is ever replaced wholesale (`*self = Self::new()`, mem::take, ..), which would rewind the counter too
    ow = K.whole_value_overwrites(P, {PQ + "PriorityQueue", IPQ + "IndexedPriorityQueue"}, skip=lambda b: "::tests" in b.name)
    ctx.ob("queue-never-replaced-in-place", not ow,
           "no statement overwrites a live PriorityQueue / IndexedPriorityQueue as a whole (that would reset next_epoch and re-issue "
           "epochs / InsertKeys)", ow or writers)
    esc = K.field_escapes(P, PQ + "PriorityQueue", "next_epoch") + K.field_escapes(P, IPQ + "IndexedPriorityQueue", "next_epoch")
    ctx.ob("epoch-counter-not-borrowed-mutably", not esc,
           "no &mut / raw pointer to next_epoch is ever taken (the two `+= 1` assignments are its only writers)", esc or writers)
    # the stored epoch has the width of the counter (a narrower field wraps after 2^32 insertions and breaks FIFO / key uniqueness)
    def fty(adt, field):
        a = P.adts.get(adt)
        if not a:
            return None
        for v in a.get("variants", []):
            for f in v.get("fields", []):
                if f["name"] == field:
                    return f["ty"]
        return None
    pairs = [(PQ + "PriorityQueue", PQ + "Item"), (IPQ + "IndexedPriorityQueue", IPQ + "UniqueKey"), (IPQ + "IndexedPriorityQueue", IPQ + "InsertKey")]
    for owner, entry in pairs:
        ct, et = fty(owner, "next_epoch"), fty(entry, "epoch")
        ctx.ob("epoch-field-width|%s" % last_seg(entry), ct is not None and ct == et,
               "the epoch stored in %s has the type of the counter it is copied from (%s vs %s): no truncation" % (last_seg(entry), et, ct),
               ["adt %s" % entry, "adt %s" % owner])
    nb = ctx.body(PQ + "PriorityQueue::new")
    if nb:
        aggs = list(nb.aggregates(adt=PQ + "PriorityQueue"))
        ok = len(aggs) == 1 and dict(zip(aggs[0].node["r"]["fields"], aggs[0].node["r"]["ops"])).get("next_epoch", {}).get("v") == 0
        ctx.ob("new|epoch-zero", ok, "a new queue starts at epoch 0", aggs)
    # pull / peek return the heap top's key and value
    for nm, heapfn in (("pull", "std::collections::BinaryHeap::pop"), ("peek", "std::collections::BinaryHeap::peek")):
        pb = ctx.body(PQ + "PriorityQueue::" + nm)
        if not pb:
            continue
        hs = list(pb.calls("^" + heapfn.replace("::", "::") + "$"))
        somes = [r for r in K.ret_assigns(pb) if not r.is_term and r.node["r"]["r"] == "agg" and r.node["r"].get("variant") == "Some"]
        ok = len(hs) == 1 and len(somes) == 1
        if ok:
            o = pb.origins(somes[0].node["r"]["ops"][0], somes[0])
            good = False
            for x in o:
                if x[0] == "agg":
                    a = Site(pb, x[1], x[2])
                    ops = a.node["r"]["ops"]
                    if len(ops) == 2:
                        k = pb.origins(ops[0], a)
                        v = pb.origins(ops[1], a)
                        def from_top(os_, field):
                            return bool(os_) and all(origin_proj_names(y)[1][-1:] == [("f", field)] and
                                                     any(c[2] == heapfn for c in origin_calls(y)) for y in os_)
                        good = from_top(k, "key") and from_top(v, "value")
            ok = good
        ctx.ob("%s|returns-heap-top" % nm, ok, "%s returns (key, value) of the heap's top entry" % nm, hs + somes)


def rule_c(ctx):
    P = ctx.prog
    a = P.adts.get(IPQ + "UniqueKey")
    if not a:
        return ctx.missing("adt UniqueKey")
    fields = [f["name"] for f in a["variants"][0]["fields"]]
    ctx.ob("uniquekey|field-order", fields == ["key", "epoch"], "UniqueKey's fields are declared in the order (key, epoch): the derived Ord is lexicographic", ["adt UniqueKey %s:%s" % (a["file"], a["line"])])
    imps = [i for i in P.impls if norm(i["self_head"]) == IPQ + "UniqueKey" and i.get("trait")]
    names = {last_seg(norm(i["trait"])): i for i in imps}
    for t in ("Ord", "PartialOrd", "PartialEq", "Eq"):
        ok = t in names and names[t]["exp"]
        ctx.ob("uniquekey|derived-%s" % t, ok, "UniqueKey derives %s (a hand-written impl would need its own review)" % t,
               ["impl %s at %s:%s" % (t, names[t]["file"], names[t]["line"])] if t in names else [])
    # derived Ord::cmp compares key then epoch
    cb = P.body("<util::indexed_priority_queue::UniqueKey as std::cmp::Ord>::cmp")
    if cb is None:
        return ctx.missing("UniqueKey::cmp body")
    cmps = list(cb.calls("^std::cmp::Ord::cmp$"))
    order = sorted(cmps, key=lambda s: cb.rpo_index.get(s.b, 0))
    firsts = []
    for s in order:
        o = cb.origins(s.args()[0], s)
        for x in o:
            firsts.append(origin_proj_names(x)[1][-1:])
    ctx.ob("uniquekey|cmp-key-then-epoch", firsts[:2] == [[("f", "key")], [("f", "epoch")]] and len(order) == 2 and cb.dominates(order[0], order[1]),
           "the derived comparison looks at key first, then epoch", order)


def rule_d(ctx):
    P = ctx.prog
    b = ctx.body(IPQ + "IndexedPriorityQueue::extract")
    if not b:
        return
    # the destructive operations: mem::replace on the slab slot, heap.pop
    repl = list(b.calls("^std::mem::replace$"))
    pops = list(b.calls("^std::vec::Vec::pop$"))
    if not repl or not pops:
        return ctx.missing("mem::replace / Vec::pop in extract")

    def epoch_eq(c):
        if c.kind != "cmp" or c.data[0] != "==":
            return False
        A, B = c.data[1], c.data[2]
        def stored(x):
            return bool(x) and all(origin_proj_names(o)[1][-2:] == [("f", "key"), ("f", "epoch")] for o in x)
        def given(x):
            return x == frozenset([("proj", ("arg", 2), ("f", "epoch"))])
        return (stored(A) and given(B)) or (stored(B) and given(A))

    for s in repl + pops:
        conds = b.conditions(s)
        ok_epoch = any(epoch_eq(c) for c in conds)
        ok_node = any(c.kind == "variant" and c.data[1] == {"HeapNode"} and not c.data[2] for c in conds)
        ok_some = any(c.kind == "variant" and c.data[1] == {"Some"} and not c.data[2] for c in conds)
        ctx.ob("extract|guarded|%s" % last_seg(s.callee), ok_epoch and ok_node and ok_some,
               "an entry is removed only if the slab slot exists, is a live heap node and its stored epoch equals the InsertKey's epoch", [s])
    # the stored epoch that is compared is the one of the heap item the slab node points to, slab index from the key
    gets = list(b.calls(r"^core::slice::<impl \[T\]>::get$|^slab::Slab::get$|^std::vec::Vec::get$"))
    ok = any(b.origins(g.args()[1], g) == frozenset([("proj", ("arg", 2), ("f", "slab_idx"))]) for g in gets)
    ctx.ob("extract|slot-from-key", ok, "the inspected slab slot is the one named by the InsertKey", gets)
    # None on the other branches without mutation
    nones = [r for r in K.ret_assigns(b) if not r.is_term and r.node["r"]["r"] == "agg" and r.node["r"].get("variant") == "None"]
    ctx.ob("extract|rejects", len(nones) >= 2, "extract returns None for a vacant / free slot and for an epoch mismatch", nones)
    for n in nones:
        ok = not any(b.can_reach(s, n) for s in repl + pops)
        ctx.ob("extract|reject-has-no-effect", ok, "a rejected extract does not modify the queue", [n])
    # InsertKey returned by insert
    ib = ctx.body(IPQ + "IndexedPriorityQueue::insert")
    if ib:
        rets = [r for r in K.ret_assigns(ib) if not r.is_term and r.node["r"]["r"] == "agg" and norm(r.node["r"].get("adt", "")) == IPQ + "InsertKey"]
        ok = len(rets) == 1
        if ok:
            fo = dict(zip(rets[0].node["r"]["fields"], rets[0].node["r"]["ops"]))
            eo = ib.origins(fo["epoch"], rets[0])
            uk = [a for a in ib.aggregates(adt=IPQ + "UniqueKey")]
            ok = len(uk) == 1 and eo == ib.origins(dict(zip(uk[0].node["r"]["fields"], uk[0].node["r"]["ops"]))["epoch"], uk[0])
            # slab index = the slot where the value was stored = the one given to sift_up
            so = ib.origins(fo["slab_idx"], rets[0])
            sift = list(ib.calls(r"IndexedPriorityQueue::sift_up$"))
            ok2 = False
            for sf in sift:
                io = ib.origins(sf.args()[1], sf)
                for x in io:
                    if x[0] == "agg":
                        a = Site(ib, x[1], x[2])
                        f2 = dict(zip(a.node["r"]["fields"], a.node["r"]["ops"]))
                        if "slab_idx" in f2 and ib.origins(f2["slab_idx"], a) == so:
                            ok2 = True
            ok = ok and ok2
        ctx.ob("insertkey|carries-epoch-and-slot", ok, "insert returns InsertKey{slab index of the new node, epoch of the new entry}", rets)


KR = "grpc::key_registry::KeyRegistry::"


def rule_d_indices(ctx):
    """The keyed queue keeps two arrays that point at each other: heap items carry `slab_idx`, slab nodes carry `heap_idx`. Every
    access to one array through the other uses exactly that link field (an index taken from any other field - a key, an epoch, a
    position - addresses a different entry as soon as a slot has been reused)."""
    P = ctx.prog
    n = 0
    for nm in ("peek", "pull", "extract", "insert", "sift_up", "sift_down"):
        b = P.body(IPQ + "IndexedPriorityQueue::" + nm)
        if b is None:
            continue
        for s in b.calls(r"std::ops::Index::index$|std::ops::IndexMut::index_mut$|slice.*::get(_mut)?$|std::vec::Vec::get(_mut)?$"):
            ao = b.origins(s.args()[0], s)
            io = b.origins(s.args()[1], s)
            arrays = set(origin_proj_names(o)[1][-1][1] for o in ao if origin_proj_names(o)[1] and origin_proj_names(o)[1][-1][0] == "f")
            if len(arrays) != 1 or not (arrays <= {"slab", "heap"}):
                continue
            arr = next(iter(arrays))
            want = "slab_idx" if arr == "slab" else "heap_idx"
            linked = []
            for o in io:
                names = origin_proj_names(o)[1]
                fields = [x[1] for x in names if x[0] == "f" and not x[1].isdigit()]
                if fields and fields[-1] in ("slab_idx", "heap_idx", "epoch", "key", "next"):
                    linked.append(fields[-1])
            if not linked:
                continue  # positional index (parent / child position, free-list head, len): covered by the heap shape, not a link
            n += 1
            ctx.ob("link-field|%s|%s" % (nm, arr), all(f == want for f in linked),
                   "IndexedPriorityQueue::%s addresses `%s` through the `%s` link (found %s)" % (nm, arr, want, sorted(set(linked))), [s])
    ctx.ob("floor|link-field-accesses", n >= 5, "expected >= 5 link-field accesses in the keyed queue (found %d)" % n)


def rule_heap_comparisons(ctx):
    """Every ordering decision of the keyed queue compares whole UniqueKeys (key, then epoch: C20.c). A comparison of a component
    alone - the user key, or the epoch - orders entries differently from the order the heap was built with (and an epoch compared
    after truncation aliases keys)."""
    P = ctx.prog
    n = 0
    for nm in ("sift_up", "sift_down", "extract", "insert", "pull", "peek", "peek_key"):
        b = P.body(IPQ + "IndexedPriorityQueue::" + nm)
        if b is None:
            continue
        bad = []
        good = []
        for s in b.calls(r"^std::cmp::(PartialOrd|Ord)::(lt|le|gt|ge|cmp|partial_cmp|max|min)$"):
            tys = (s.node.get("argtys") or [])[:2]
            if len(tys) == 2 and all("indexed_priority_queue::UniqueKey<" in t for t in tys):
                good.append(s)
            else:
                bad.append(s)
        # component comparisons compiled to MIR binary operators (integers) or PartialEq on a component
        for st in b.assigns():
            r = st.node["r"]
            if r["r"] == "bin" and r["op"] in ("Lt", "Le", "Gt", "Ge"):
                for side in (r["a"], r["b"]):
                    for o in b.origins(side, st):
                        names = origin_proj_names(o)[1]
                        if any(x == ("f", "epoch") or x == ("f", "key") for x in names):
                            bad.append(st)
        n += len(good)
        if good or bad:
            ctx.ob("heap-order-compares-unique-keys|%s" % nm, not bad,
                   "IndexedPriorityQueue::%s orders entries only by comparing whole UniqueKeys (%d such comparisons)" % (nm, len(good)), bad or good)
    ctx.ob("floor|unique-key-comparisons", n >= 5, "expected >= 5 UniqueKey comparisons in the keyed queue (found %d)" % n)
    # the epoch equality test of extract compares full-width values
    b = P.body(IPQ + "IndexedPriorityQueue::extract")
    if b is not None:
        casts = []
        for st in b.assigns():
            r = st.node["r"]
            if r["r"] == "cast":
                for o in b.origins(r["o"], st):
                    if any(x == ("f", "epoch") for x in origin_proj_names(o)[1]):
                        casts.append(st)
        ctx.ob("extract|epoch-compared-at-full-width", not casts, "extract compares the stored and the presented epoch without casting them", casts or [b.name])


def rule_e(ctx):
    """gRPC key registry (only compiled with the `grpc` feature: thorough tier)"""
    P = ctx.prog
    ib = P.body(KR + "insert_key")
    if ib is None:
        ctx.ob("key-registry|not-compiled", True, "grpc::key_registry is not part of this configuration (checked in the `full` configuration of the thorough tier)", [])
        return
    for nm, key_arg in (("insert_key", ("arg", 3)), ("insert_eternal_key", None)):
        b = P.body(KR + nm)
        if b is None:
            ctx.missing(KR + nm)
            continue
        rets = K.ret_assigns(b)
        ok = bool(rets) and all(r.is_term and r.callee == IPQ + "IndexedPriorityQueue::insert" and
                                b.origins(r.args()[2], r) == frozenset([("arg", 2)]) for r in rets)
        if key_arg:
            ok = ok and all(b.origins(r.args()[1], r) == frozenset([key_arg]) for r in rets)
        ctx.ob("key-registry|%s-returns-insert-key" % nm, ok, "%s registers the ActionKey and returns the queue's InsertKey unchanged" % nm, rets)
    eb = P.body(KR + "extract_key")
    if eb:
        ex = list(eb.calls(IPQ.replace("::", "::") + "IndexedPriorityQueue::extract$"))
        ok = len(ex) == 1 and eb.origins(ex[0].args()[1], ex[0]) == frozenset([("arg", 2)])
        ctx.ob("key-registry|extract-by-given-id", ok, "extract_key removes exactly the entry designated by the given id", ex)
    rb = P.body(KR + "remove_expired_keys")
    if rb:
        pulls = list(rb.calls(IPQ + "IndexedPriorityQueue::pull$"))
        ok = len(pulls) == 1
        if ok:
            good = False
            for c in rb.conditions(pulls[0]):
                if K.cmp_implies(c, "<", lambda x: any(K.has_call(frozenset([o]), lambda cc: cc.endswith("peek_key")) for o in x), lambda y: y == frozenset([("arg", 2)])):
                    good = True
            ok = good
        ctx.ob("key-registry|expire-only-strictly-older", ok, "only keys whose expiration strictly predates `now` are dropped", pulls)


RULES = [
    ("C20.e", "gRPC key registry hands queue keys through unchanged", rule_e),
    ("C20.a", "Item comparator: key, then epoch, reversed", rule_a),
    ("C20.b", "epochs unique and increasing; pull/peek return the heap top", rule_b),
    ("C20.c", "UniqueKey orders by (key, epoch)", rule_c),
    ("C20.d", "extract only on matching epoch; InsertKey carries it", rule_d),
    ("C20.i", "heap <-> slab accesses go through the slab_idx / heap_idx link fields", rule_d_indices),
    ("C20.j", "ordering decisions compare whole UniqueKeys; epochs compared at full width", rule_heap_comparisons),
]


def rule_inventory(ctx):
    from . import inventory
    inventory.check(ctx, ['file:priority_queue', 'file:indexed_priority_queue', 'keyed-queue-ops'])
    inventory.check_narrowing(ctx)


RULES.append(("C20.f", "state-mutation inventory: no new site that changes the content of the state this property rests on", rule_inventory))


def rule_mustpass(ctx):
    from . import mustpass
    mustpass.check(ctx, ['pq-insert-pushes', 'ipq-insert-sifts', 'ipq-pull-sifts'])


RULES.append(("C20.g", "must-pass-through: no path around the effects this property rests on (added fast paths / early returns)", rule_mustpass))


def rule_commit(ctx):
    from . import mustpass
    for g, floor in [("queues", 10)]:
        mustpass.commit_group(ctx, g, floor)


RULES.append(("C20.h", "branch-commit: between the decision to perform an effect and the effect there is no way out", rule_commit))


def rule_root_access(ctx):
    """pull, peek and peek_key of the keyed queue hand out the element at the root of the heap (heap.first()): the key they return
    is read from that element. Any other position is some element, not the smallest."""
    P = ctx.prog
    IP = "util::indexed_priority_queue::IndexedPriorityQueue::"
    n = 0
    for nm in ("pull", "peek", "peek_key"):
        b = ctx.body(IP + nm)
        if b is None:
            continue
        firsts = [s for s in b.calls(r"^core::slice::<impl \[T\]>::(first|first_mut)$")]
        idx0 = []
        ok = len(firsts) == 1
        if ok:
            ro = b.origins(firsts[0].args()[0], firsts[0])
            ok = bool(ro) and all(any(x == ("f", "heap") for x in origin_proj_names(o)[1]) for o in ro)
        keys = set()
        somes = [r for r in K.ret_assigns(b) if not r.is_term and r.node["r"]["r"] == "agg" and r.node["r"].get("variant") == "Some"]
        for r in somes:
            for o in b.origins(r.node["r"]["ops"][0], r):
                if o[0] == "agg" and o[3] == "tuple":
                    a = Site(b, o[1], o[2])
                    keys |= set(b.origins(a.node["r"]["ops"][0], a))
                else:
                    keys.add(o)
        okk = ok and bool(somes) and bool(keys) and all(origin_contains(k, lambda t: t == ("call", firsts[0].b, firsts[0].callee)) for k in keys)
        if ok and not somes:
            # `self.heap.first().map(|item| ..)`: the result is Option::map / and_then applied to the root element
            rets = [r for r in K.ret_assigns(b) if r.is_term and r.callee in ("std::option::Option::map", "std::option::Option::and_then")]
            okk = bool(rets) and len(rets) == len(K.ret_assigns(b)) and all(
                b.origins(r.args()[0], r) == frozenset([("call", firsts[0].b, firsts[0].callee)]) for r in rets)
            somes = rets
        others = [s for s in b.calls(r"^core::slice::<impl \[T\]>::(last|last_mut|get|get_mut|get_unchecked)$|^std::vec::Vec::(last|pop)$")]
        if nm != "pull":
            okk = okk and not others
        n += 1
        ctx.ob("root-access|%s" % nm, okk, "the key handed out by %s is read from heap.first() (the root)" % nm, firsts + somes + others)
    ctx.ob("floor|root-access", n == 3, "pull, peek and peek_key of the keyed queue are analysed (found %d)" % n)


RULES.append(("C20.k", "pull / peek / peek_key hand out the root of the heap", rule_root_access))


def _root_var(b, operand, site, depth=0):
    """the user variable (local with a debug name) whose current value the operand copies; None if it is computed."""
    if operand.get("k") not in ("copy", "move") or operand["pl"]["p"] or depth > 6:
        return None
    l = operand["pl"]["l"]
    if l in b.debug_names and any(not p for _, p in b.debug_names[l]):
        return l
    defs = b.reaching_defs(l, site)
    roots = set()
    for d in defs:
        if d.is_term or d.node["r"]["r"] != "use":
            return None
        roots.add(_root_var(b, d.node["r"]["o"], d, depth + 1))
    return next(iter(roots)) if len(roots) == 1 else None


def rule_relink(ctx):
    """Moving an item inside the heap keeps the slab's back-link true: in sift_up / sift_down every `heap[pos] = item` is followed
    by `slab[item.slab_idx].heap_idx = pos` with the same position variable, with no assignment to that variable in between. (That the
    positions visited are the right ones is the heap invariant, which is not decided here.)"""
    P = ctx.prog
    IP = "util::indexed_priority_queue::IndexedPriorityQueue::"
    n = 0
    for nm in ("sift_up", "sift_down"):
        b = ctx.body(IP + nm)
        if b is None:
            continue
        heap_w = []
        for s in b.calls(r"^std::ops::IndexMut::index_mut$"):
            ro = b.origins(s.args()[0], s)
            if ro and all(origin_proj_names(o)[1][-1:] == [("f", "heap")] for o in ro):
                heap_w.append(s)
        links = []
        for s in b.calls(r"unwrap_heap_index_mut$"):
            dl = s.node["dest"]["l"]
            for a in b.assigns():
                if a.node["p"]["l"] == dl and a.node["p"]["p"] == ["*"] and a.node["r"]["r"] == "use":
                    links.append((s, a))
        ok = len(heap_w) == 2 and len(links) == 2
        pairs = []
        if ok:
            for hw in heap_w:
                hv = _root_var(b, hw.args()[1], hw)
                cand = [(s, a) for (s, a) in links if b.dominates(hw, s) and _root_var(b, a.node["r"]["o"], a) == hv and hv is not None]
                # the closest link store after this heap write
                cand = [(s, a) for (s, a) in cand if not any(b.dominates(hw, hw2) and b.dominates(hw2, s) and hw2 != hw for hw2 in heap_w)]
                if len(cand) != 1:
                    ok = False
                    break
                s, a = cand[0]
                # the position variable is not re-assigned between the two
                redef = [d for d in b.all_defs(hv) if b.dominates(hw, d) and b.dominates(d, a) and d != hw]
                if redef:
                    ok = False
                    break
                pairs.append((hw, a))
        n += 1
        ctx.ob("relink|%s" % nm, ok and len(pairs) == 2,
               "each of the two heap writes of %s is followed by a back-link store of the same position variable" % nm, heap_w + [a for _, a in links])
    ctx.ob("floor|relink", n == 2, "sift_up and sift_down are analysed (found %d)" % n)


RULES.append(("C20.l", "sift_up / sift_down re-link the slab entry to the position just written", rule_relink))
