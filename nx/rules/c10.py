"""C10 Periodic actions fire exactly at t0 + k*period — clauses a..d (DESIGN.md section 5, C10)."""
from ..core import Site, TERM, norm, origin_calls, origin_proj_names, last_seg, Cond, origin_contains
from . import common as K
from . import c01

EXPLANATION = (
    "Decides: (a) the helper that pulls an action for execution re-inserts the clone returned by Action::next "
    "under the key (pulled time + reported period, pulled origin) into the same queue, on every path of the "
    "periodic branch and before returning the pulled action itself; (b) every ActionInner::next implementation "
    "of a periodic action rebuilds itself with its own generator, period (and key) and reports `self.period` "
    "unchanged, non-periodic ones return None, Action::next forwards both components unchanged; (c) only the pull "
    "helper (and the validation in schedule_from) call Action::next; (d) every pull from the scheduler queue in the "
    "stepping function is either that helper or the discard of a cancelled head. NOT decided: tai_time arithmetic, "
    "behaviour over long horizons."
)
TRUSTED = K.TRUSTED

ACTION_NEXT = "simulation::scheduler::Action::next"
INNER_NEXT = "simulation::scheduler::ActionInner::next"


def pull_helpers(P):
    """bodies that pull from the scheduler queue and call Action::next (the pull-for-execution helper)."""
    out = []
    for b in P.all_bodies():
        pulls = [s for s in b.calls(K.PQ_PULL) if K.is_sched_queue_ty((s.node.get("argtys") or [""])[0])]
        if pulls and any(True for _ in b.calls(ACTION_NEXT)):
            out.append(b)
    return out


def rule_a(ctx):
    P = ctx.prog
    hs = pull_helpers(P)
    if not hs:
        return ctx.missing("pull helper (pulls from the scheduler queue and calls Action::next)")
    for b in hs:
        pulls = list(b.calls(K.PQ_PULL))
        nexts = list(b.calls(ACTION_NEXT))
        inserts = list(b.calls(K.PQ_INSERT))
        ok = len(pulls) == 1 and len(nexts) == 1 and len(inserts) == 1
        ctx.ob("helper-shape|%s" % b.name, ok, "the pull helper has exactly one pull, one Action::next and one re-insertion", pulls + nexts + inserts)
        if not ok:
            continue
        pull, nxt, ins = pulls[0], nexts[0], inserts[0]
        pulled = ("call", pull.b, K.PQ_PULL)

        def proj(root, *names):
            o = root
            for n in names:
                o = ("proj", o, n)
            return o

        # Action::next is asked of the pulled action
        no = b.origins(nxt.args()[0], nxt)
        ctx.ob("next-of-pulled|%s" % b.name, no == frozenset([proj(pulled, ("f", "1"))]), "Action::next is called on the pulled action", [nxt])
        # insert on the Some side, on all paths
        conds = b.conditions(ins)
        some = [c for c in conds if c.kind == "variant" and c.data[1] == {"Some"} and not c.data[2] and c.data[0] == frozenset([("call", nxt.b, ACTION_NEXT)])]
        ctx.ob("reinsert-iff-periodic|%s" % b.name, bool(some) and len(conds) == len(some),
               "the re-insertion happens exactly when Action::next returned Some (no further condition)", [ins])
        if some:
            c = some[0]
            ctx.ob("reinsert-on-all-paths|%s" % b.name, b.block_postdominates(ins.b, c.tgt),
                   "every path of the periodic branch passes the re-insertion before returning", [ins])
        # key = (pulled.0.0 + next.Some.0.1, pulled.0.1)
        ko = b.origins(ins.args()[1], ins)
        key_ok = False
        for o in ko:
            if o[0] == "agg":
                a = Site(b, o[1], o[2])
                ops = a.node["r"]["ops"]
                if len(ops) == 2:
                    t = b.origins(ops[0], a)
                    org = b.origins(ops[1], a)
                    add_ok = False
                    for x in t:
                        if x[0] == "call" and x[2] == "std::ops::Add::add":
                            ad = Site(b, x[1], TERM)
                            a0 = b.origins(ad.args()[0], ad)
                            a1 = b.origins(ad.args()[1], ad)
                            want_t = frozenset([proj(pulled, ("f", "0"), ("f", "0"))])
                            want_p = frozenset([proj(("call", nxt.b, ACTION_NEXT), ("d", "Some"), ("f", "0"), ("f", "1"))])
                            if (a0 == want_t and a1 == want_p) or (a1 == want_t and a0 == want_p):
                                add_ok = True
                    key_ok = add_ok and org == frozenset([proj(pulled, ("f", "0"), ("f", "1"))]) and len(t) == 1
        ctx.ob("reinsert-key|%s" % b.name, key_ok,
               "the re-inserted key is (pulled time + period reported by next(), pulled origin id) (got %s)" % K.describe_origin(ko), [ins])
        vo = b.origins(ins.args()[2], ins)
        ctx.ob("reinsert-value|%s" % b.name, vo == frozenset([proj(("call", nxt.b, ACTION_NEXT), ("d", "Some"), ("f", "0"), ("f", "0"))]),
               "the re-inserted action is the clone returned by next()", [ins])
        qo_i = b.origins(ins.args()[0], ins)
        qo_p = b.origins(pull.args()[0], pull)
        ctx.ob("same-queue|%s" % b.name, qo_i == qo_p and bool(qo_i), "pull and re-insertion operate on the same queue", [pull, ins])
        # returns the pulled action
        rets = [r for r in K.ret_assigns(b)]
        ok = bool(rets) and all(not r.is_term and r.node["r"]["r"] == "use" and b.origins(r.node["r"]["o"], r) == frozenset([proj(pulled, ("f", "1"))]) for r in rets)
        ctx.ob("returns-pulled|%s" % b.name, ok, "the helper returns the pulled action (the occurrence to execute now)", rets)
        ctx.ob("not-in-loop|%s" % b.name, not b.in_loop(ins) and not b.in_loop(pull), "one pull / one re-insertion per call", [pull, ins])


def rule_b(ctx):
    P = ctx.prog
    impls = [b for b in P.all_bodies() if b.impl_trait and norm(b.impl_trait) == "simulation::scheduler::ActionInner" and last_seg(b.name) == "next"]
    if len(impls) < 4:
        ctx.ob("floor|next-impls", False, "expected >= 4 ActionInner::next implementations (found %d)" % len(impls))
    n_periodic = 0
    for b in impls:
        rets = K.ret_assigns(b)
        somes = [r for r in rets if not r.is_term and r.node["r"]["r"] == "agg" and r.node["r"].get("variant") == "Some"]
        nones = [r for r in rets if not r.is_term and r.node["r"]["r"] == "agg" and r.node["r"].get("variant") == "None"]
        selfty = norm(b.impl_self or "")
        periodic = "Periodic" in last_seg(selfty)
        adt = P.adts.get(selfty)
        has_period_field = bool(adt) and any(f["name"] == "period" for v in adt["variants"] for f in v["fields"])
        if has_period_field:
            n_periodic += 1
            ok = bool(somes) and not nones
            ctx.ob("periodic-returns-some|%s" % selfty, ok, "a periodic action's next() always returns Some", rets)
            self_period = frozenset([("proj", ("arg", 1), ("f", "period"))])
            for r in somes:
                o = b.origins(r.node["r"]["ops"][0], r)
                good = False
                for x in o:
                    if x[0] == "agg":
                        a = Site(b, x[1], x[2])
                        ops = a.node["r"]["ops"]
                        if len(ops) == 2 and b.origins(ops[1], a) == self_period:
                            # the boxed successor
                            so = b.origins(ops[0], a)
                            ctor = [c for y in so for c in origin_calls(y) if c[2].endswith("::new") and norm(c[2]).startswith(selfty)]
                            for c in ctor:
                                cs = Site(b, c[1], TERM)
                                tys = cs.node.get("argtys", [])
                                pidx = [i for i, t in enumerate(tys) if t == "std::time::Duration"]
                                if pidx and b.origins(cs.args()[pidx[0]], cs) == self_period:
                                    gen_o = b.origins(cs.args()[0], cs)
                                    if gen_o == frozenset([("proj", ("arg", 1), ("f", "gen"))]):
                                        good = True
                                    if len(cs.args()) == 3:
                                        key_o = b.origins(cs.args()[2], cs)
                                        good = good and key_o == frozenset([("proj", ("arg", 1), ("f", "event_key"))])
                ctx.ob("next-preserves-period|%s" % selfty, good,
                       "next() rebuilds the action from self.gen.clone(), self.period (and self.event_key.clone()) and reports self.period", [r])
        else:
            ok = bool(nones) and not somes
            ctx.ob("oneshot-returns-none|%s" % selfty, ok, "a non-periodic action's next() returns None", rets)
    ctx.ob("floor|periodic-impls", n_periodic >= 2, "expected 2 periodic action types (found %d)" % n_periodic)
    # Action::next forwards unchanged
    a = P.body(ACTION_NEXT)
    if a is None:
        return ctx.missing(ACTION_NEXT)
    inner = list(a.calls(INNER_NEXT))
    maps = list(a.calls(r"^std::option::Option::map$"))
    ok = len(inner) == 1 and len(maps) == 1 and a.origins(maps[0].args()[0], maps[0]) == frozenset([("call", inner[0].b, INNER_NEXT)])
    ctx.ob("action-next-forwards", ok, "Action::next maps the result of the inner next()", inner + maps)
    for cb in P.children(a):
        rets = [r for r in K.ret_assigns(cb) if not r.is_term and r.node["r"]["r"] == "agg"]
        good = bool(rets)
        for r in rets:
            this = False
            ops = r.node["r"]["ops"]
            if len(ops) == 2 and cb.origins(ops[1], r) == frozenset([("proj", ("arg", 2), ("f", "1"))]):
                ao = cb.origins(ops[0], r)
                for x in ao:
                    if x[0] == "agg" and x[3] == "simulation::scheduler::Action":
                        s = Site(cb, x[1], x[2])
                        if cb.origins(s.node["r"]["ops"][0], s) == frozenset([("proj", ("arg", 2), ("f", "0"))]):
                            this = True
            good = good and this
        ctx.ob("action-next-closure", good, "the mapping closure wraps component 0 and passes the period (component 1) unchanged", rets)


def rule_c(ctx):
    P = ctx.prog
    helpers = set(b.name for b in pull_helpers(P))
    callers = P.callers_of(lambda c: c == ACTION_NEXT)
    if not callers:
        return ctx.missing("callers of Action::next")
    for b, s in callers:
        ok = b.name in helpers
        if not ok:
            # validation site: the result is only inspected (period tested with is_zero), the clone never inserted/spawned
            uses_clone = False
            for u in b.calls():
                if u.callee in (K.PQ_INSERT,) or u.callee in K.SPAWNS:
                    for a in u.args():
                        if any(origin_contains(o, lambda t: t == ("call", s.b, ACTION_NEXT)) for o in b.origins(a, u)):
                            uses_clone = True
            ok = not uses_clone and any(True for _ in b.calls(r"^std::time::Duration::is_zero$"))
        ctx.ob("next-caller|%s" % K.owner_fn(P, b).name, ok,
               "Action::next may only be called by the pull helper (re-scheduling) or to validate the period", [s])


def rule_d(ctx):
    P = ctx.prog
    helpers = set(b.name for b in pull_helpers(P))
    for st in c01.stepping_fns(P):
        for b in P.family(st):
            for s in b.calls(K.PQ_PULL):
                if b.name in helpers:
                    ctx.ob("pull-site|%s" % b.name, True, "pull for execution goes through the pull helper", [s])
                    continue
                conds = b.conditions(s)
                ok = any(c.kind == "call" and c.data[0] == "simulation::scheduler::Action::is_cancelled" and c.data[1] is True for c in conds)
                ctx.ob("pull-site|%s" % b.name, ok,
                       "a pull outside the pull helper may only discard a cancelled action (otherwise a periodic action would not be re-scheduled)", [s])
        # every action spawned / chained by the stepping function comes from the helper
        for s in st.calls():
            if s.callee in ("simulation::scheduler::Action::spawn_and_forget", "simulation::scheduler::Action::into_future"):
                o = st.origins(s.args()[0], s)
                ok = bool(o) and all(x[0] == "call" and x[2] in helpers for x in o)
                ctx.ob("executed-action-from-helper|%s" % last_seg(s.callee), ok, "every executed action was returned by the pull helper", [s])
    rule_d_must_pass(ctx)


def rule_d_must_pass(ctx):
    """Must-pass-through side of the execution path (added-code changes: an early return / fast path in the stepping function).
    pulled -> handed to the executor -> executor run, on every path."""
    P = ctx.prog
    helpers = set(b.name for b in pull_helpers(P))
    SPAWN_A = "simulation::scheduler::Action::spawn_and_forget"
    INTO_F = "simulation::scheduler::Action::into_future"
    SEQ_NEW = "util::seq_futures::SeqFuture::new"
    SEQ_PUSH = "util::seq_futures::SeqFuture::push"
    for st in c01.stepping_fns(P):
        hcalls = [s for s in st.calls() if s.callee in helpers]
        spawn_a = list(st.calls("^" + SPAWN_A.replace("::", "::") + "$"))
        into_f = list(st.calls("^" + INTO_F + "$"))
        pushes = list(st.calls("^" + SEQ_PUSH + "$"))
        seq_new = list(st.calls("^" + SEQ_NEW + "$"))
        spawn_e = [s for s in st.calls(r"executor::Executor::spawn_and_forget$")]
        runs = list(st.calls(K.SIM_RUN))
        oos = list(st.aggregates(adt="simulation::ExecutionError", variant="OutOfSync"))
        if not (hcalls and spawn_a and into_f and pushes and seq_new and spawn_e and runs):
            ctx.missing("execution path sites in %s (helper calls %d, Action::spawn %d, into_future %d, push %d, SeqFuture::new %d, Executor::spawn %d, run %d)" % (
                st.name, len(hcalls), len(spawn_a), len(into_f), len(pushes), len(seq_new), len(spawn_e), len(runs)))
            continue
        consumers = spawn_a + into_f
        for h in hcalls:
            leak = st.path_exists_to_return(h, avoiding=consumers) or any(st.can_reach(h, h2, avoiding=consumers) for h2 in hcalls)
            ctx.ob("pulled-action-consumed|%s" % st.name, not leak,
                   "an action returned by the pull helper is spawned or chained on every path (no return and no further pull before that): a pulled "
                   "action that is dropped never runs", [h])
        for f in into_f:
            leak = st.path_exists_to_return(f, avoiding=pushes) or any(st.can_reach(f, h2, avoiding=pushes) for h2 in hcalls)
            ctx.ob("chained-future-pushed|%s" % st.name, not leak, "the future of a chained action is pushed into the sequence on every path", [f])
        for n in seq_new:
            ctx.ob("sequence-spawned|%s" % st.name, not st.path_exists_to_return(n, avoiding=spawn_e),
                   "a sequence of same-origin actions is handed to the executor on every path", [n])
        for sp in spawn_a + spawn_e:
            # a failure result is the only way out before run; that it can only be the OutOfSync failure is C18.a
            ctx.ob("spawned-then-run|%s" % st.name, not st.path_exists_to_return(sp, avoiding=runs + oos + K.failure_results(st)),
                   "once an action is spawned every path to a return runs the executor (except a failure result, i.e. OutOfSync: C18.a)", [sp])


def rule_e(ctx):
    from . import c07
    c07.rule_c(ctx)


def rule_f(ctx):
    from . import c07
    c07.rule_b(ctx)

def rule_g(ctx):
    from . import c09
    c09.rule_a(ctx)
    # "until it is cancelled": the key the occurrence checks is the action's own key, on both execution paths (spawn / chained)
    c09.rule_b(ctx)
    c09.rule_d(ctx)

RULES = [
    ("C10.g", "a cancelled periodic action stops firing: the stepping loop only sees keys through the cancelled-skipping peek helper", rule_g),
    ("C10.f", "same-key occurrences are chained in pull order in one task", rule_f),
    ("C10.e", "same-key occurrences chained in a SeqFuture are each polled to completion exactly once", rule_e),
    ("C10.a", "pull helper re-inserts next() at time+period under the same origin", rule_a),
    ("C10.b", "next() preserves generator, period and key", rule_b),
    ("C10.c", "who may call Action::next", rule_c),
    ("C10.d", "every executed action goes through the pull helper", rule_d),
]


def rule_inventory(ctx):
    from . import inventory
    inventory.check(ctx, ['sched-queue-pull', 'sched-queue-insert'])
    inventory.check_narrowing(ctx)


RULES.append(("C10.h", "state-mutation inventory: no new site that changes the content of the state this property rests on", rule_inventory))


def rule_mustpass(ctx):
    from . import mustpass
    mustpass.check(ctx, ['periodic-reinserted'])


RULES.append(("C10.i", "must-pass-through: no path around the effects this property rests on (added fast paths / early returns)", rule_mustpass))


def rule_commit(ctx):
    from . import mustpass
    for g, floor in [('sched-queue', 25)]:
        mustpass.commit_group(ctx, g, floor)


RULES.append(("C10.j", "branch-commit: between the decision to perform an effect and the effect there is no way out", rule_commit))


def rule_deps(ctx):
    from . import c08, c20
    c20.rule_a(ctx)
    c20.rule_b(ctx)
    c08.rule_c(ctx)
    c08.rule_wrappers(ctx)


RULES.append(("C10.k", "queue order (C20.a/b), rejection of null periods (C08.c), public methods forward deadline and period unchanged (C08.g)", rule_deps))
