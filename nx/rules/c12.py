"""C12 Mailbox = bounded, lossless MPSC FIFO without lost wake-ups — structural clauses a..e."""
from ..core import Site, TERM, norm, origin_calls, origin_proj_names, last_seg, Cond, origin_contains
from . import common as K
from ..masks import const_eval_set
from .. import atomics

EXPLANATION = (
    "Decides: (a) the memory-ordering floors of every atomic that hands a slot between producers and the consumer "
    "(stamp Acquire loads / Release stores in push, pop and MessageBorrow::drop, Release decrement + Acquire fence in "
    "Sender::drop; RMW kind of the position CAS and of close) and the access discipline: a slot's cell is written in push "
    "only after the Acquire stamp load, on the `stamp == position` branch and after a successful CAS of the enqueue "
    "position to the successor position, and every path from that write reaches the Release store of stamp+1; in pop the "
    "cell is read only after the Acquire stamp load on the `stamp != dequeue position` branch and the dequeue position "
    "advances with the same successor function; the slot is released by MessageBorrow::drop storing the stamp computed in "
    "pop; (b) notify pairing: a successful push is followed by receiver_signal.notify(), a consumed message by "
    "drop(msg) then sender_signal.notify_one(), close by notifications of both sides, Receiver::drop by close + "
    "notify_all, the last Sender::drop by close + receiver notification; (c) Full is reported exactly for a stamp behind "
    "the position, and the buffer has `capacity` slots stamped 0..capacity; (d) single consumer: Queue::pop is only called "
    "from Receiver::recv (&mut self), Receiver is not Clone; (e) the closed flag is tested before the CAS, pop reports "
    "Closed only when the enqueue position equals the dequeue position with the closed flag. NOT decided: linearizability "
    "and lost-wake-up freedom under the C11 memory model on all interleavings; the arithmetic of len()."
)
TRUSTED = K.TRUSTED

Q = "channel::queue::Queue::"
WITH_MUT = "^loom_exports::cell::UnsafeCell::with_mut$"
WITH = "^loom_exports::cell::UnsafeCell::with$"


def _field_sites(b, op, field):
    out = []
    for s in b.calls("^std::sync::atomic::Atomic::%s$" % op):
        if atomics.receiver_field(b, s) == field:
            out.append(s)
    return out


def rule_a(ctx):
    P = ctx.prog
    from . import inventory, mustpass
    inventory.check(ctx, ["mailbox-push", "mailbox-pop", "mailbox-close", "mailbox-address", "file:mailbox-queue"])
    mustpass.check(ctx, ["send-completes-after-wait", "send-ok-notifies-receiver", "recv-notifies-sender"])
    K.check_floors(ctx, "C12")
    push = ctx.body(Q + "push")
    pop = ctx.body(Q + "pop")
    if not push or not pop:
        return
    # ---- push
    cells = list(push.calls(WITH_MUT))
    loads = _field_sites(push, "load", "stamp")
    stores = _field_sites(push, "store", "stamp")
    cas = _field_sites(push, "compare_exchange_weak", "enqueue_pos") + _field_sites(push, "compare_exchange", "enqueue_pos")
    ok = len(cells) == 1 and len(loads) == 1 and len(stores) == 1 and len(cas) == 1
    ctx.ob("push|sites", ok, "push has one cell write, one stamp load, one stamp store and one position CAS", cells + loads + stores + cas)
    if ok:
        cell, ld, st, cx = cells[0], loads[0], stores[0], cas[0]
        conds = push.conditions(cell)
        ctx.ob("push|acquire-before-write", push.dominates(ld, cell), "the slot is written only after the Acquire load of its stamp", [ld, cell])
        ok_cas = any(c.kind == "variant" and c.data[1] == {"Ok"} and not c.data[2] and c.data[0] == frozenset([("call", cx.b, cx.callee)]) for c in conds)
        ctx.ob("push|write-after-successful-cas", ok_cas, "the slot is written only by the producer whose CAS on the enqueue position succeeded", [cx, cell])
        ok_eq = any(c.kind == "variant" and c.data[1] == {"Equal"} and not c.data[2] for c in conds)
        ctx.ob("push|write-iff-stamp-matches", ok_eq, "a push is attempted only when the slot's stamp equals the enqueue position (slot free for this lap)", [cell])
        # the compared delta is stamp - enqueue_pos
        for c in conds:
            if c.kind == "variant" and c.data[1] == {"Equal"}:
                calls = [x for o in c.data[0] for x in origin_calls(o)]
                ok = any(x[2] == "std::cmp::Ord::cmp" for x in calls)
                cm = [Site(push, x[1], TERM) for x in calls if x[2] == "std::cmp::Ord::cmp"]
                good = False
                for m in cm:
                    a0 = push.origins(m.args()[0], m)
                    a1 = push.origins(m.args()[1], m)
                    subs = [Site(push, x[1], TERM) for o in a0 for x in origin_calls(o) if x[2].endswith("wrapping_sub")]
                    for sb in subs:
                        l = push.origins(sb.args()[0], sb)
                        r = push.origins(sb.args()[1], sb)
                        if l == frozenset([("call", ld.b, ld.callee)]) and all(x[0] == "const" and x[1] == 0 for x in a1) and r:
                            good = True
                ctx.ob("push|delta-is-stamp-minus-position", good, "the lap test compares stamp - enqueue_pos with 0", cm)
        # full on Less
        fulls = list(push.aggregates(adt="channel::queue::PushError", variant="Full"))
        ok = bool(fulls) and all(any(c.kind == "variant" and c.data[1] == {"Less"} and not c.data[2] for c in push.conditions(f)) for f in fulls)
        ctx.ob("push|full-iff-stamp-behind", ok, "Full is reported exactly when the stamp is behind the enqueue position (slot not yet vacated)", fulls)
        if fulls:
            fo = push.origins(fulls[0].node["r"]["ops"][0], fulls[0])
            ctx.ob("push|full-returns-message", fo == frozenset([("arg", 2)]), "Full hands the message closure back to the caller (nothing is lost)", fulls)
        # release after write, on all paths, stamp + 1
        ctx.ob("push|release-after-write", push.postdominates(st, cell) and push.dominates(cell, st),
               "every path from the slot write reaches the Release store of the stamp", [cell, st])
        vo = push.origins(st.args()[1], st)
        good = False
        for o in vo:
            if o[0] == "call" and o[2].endswith("wrapping_add"):
                a = Site(push, o[1], TERM)
                if push.origins(a.args()[0], a) == frozenset([("call", ld.b, ld.callee)]) and a.args()[1].get("v") == 1:
                    good = True
        ctx.ob("push|stamp-plus-one", good, "the published stamp is the loaded stamp + 1", [st])
        # same slot for load / write / store
        so = set()
        for s in (ld, cell, st):
            o = push.origins(s.args()[0], s)
            so.add(frozenset(origin_proj_names(x)[0] if origin_proj_names(x)[1] else x for x in o) if False else
                   frozenset(_strip_last(x) for x in o))
        ctx.ob("push|same-slot", len(so) == 1, "stamp load, cell write and stamp store address the same slot", [ld, cell, st])
        # CAS arguments: expected = the position read, new = next_queue_pos(position)
        e = push.origins(cx.args()[1], cx)
        n = push.origins(cx.args()[2], cx)
        okn = bool(n) and all(x[0] == "call" and x[2] == Q + "next_queue_pos" for x in n)
        ctx.ob("push|cas-to-successor", okn, "the enqueue position is advanced to next_queue_pos(position)", [cx])
        # closed flag tested before the CAS
        closed = list(push.aggregates(adt="channel::queue::PushError", variant="Closed"))
        okc = bool(closed) and any(c.kind == "cmp" for c in push.conditions(cx))
        ok2 = False
        for c in push.conditions(cx):
            if c.kind == "cmp" and c.data[0] == "==":
                sides = list(c.data[1] | c.data[2])
                if any(x[0] == "bin" and x[1] == "BitAnd" for x in sides) and any(x[0] == "const" and x[1] == 0 for x in sides):
                    ok2 = True
        ctx.ob("push|closed-tested-before-cas", okc and ok2, "the closed flag of the position is tested (== 0) before a push is attempted", closed + [cx])
    # ---- pop
    cells = list(pop.calls(WITH_MUT)) + list(pop.calls(WITH))
    loads = _field_sites(pop, "load", "stamp")
    dstores = _field_sites(pop, "store", "dequeue_pos")
    ok = len(cells) == 1 and len(loads) == 1 and len(dstores) == 1
    ctx.ob("pop|sites", ok, "pop has one cell access, one stamp load and one dequeue-position store", cells + loads + dstores)
    if ok:
        cell, ld, ds = cells[0], loads[0], dstores[0]
        ctx.ob("pop|acquire-before-read", pop.dominates(ld, cell), "the message is read only after the Acquire load of the stamp", [ld, cell])
        dq = _field_sites(pop, "load", "dequeue_pos")
        ne = False
        for c in pop.conditions(cell):
            if c.kind == "cmp" and c.data[0] == "!=":
                sides = c.data[1] | c.data[2]
                if ("call", ld.b, ld.callee) in sides and dq and ("call", dq[0].b, dq[0].callee) in sides:
                    ne = True
        ctx.ob("pop|read-iff-stamp-ahead", ne, "a message is taken only if the stamp differs from the dequeue position (slot populated)", [cell])
        n = pop.origins(ds.args()[1], ds)
        ctx.ob("pop|advance-to-successor", bool(n) and all(x[0] == "call" and x[2] == Q + "next_queue_pos" for x in n) and not pop.in_loop(ds),
               "the dequeue position advances with the same successor function as the enqueue position, once per pop", [ds])
        closed = list(pop.aggregates(adt="channel::queue::PopError", variant="Closed"))
        okc = False
        def load_of(o, field):
            return isinstance(o, tuple) and o[0] == "call" and o[2].endswith("Atomic::load") and atomics.receiver_field(pop, Site(pop, o[1], TERM)) == field

        def is_enq(side):
            return len(side) == 1 and load_of(next(iter(side)), "enqueue_pos")

        def is_deq_or_closed(side):
            # (the loaded dequeue position, unmasked) | self.closed_channel_mask
            if len(side) != 1:
                return False
            o = next(iter(side))
            if not (isinstance(o, tuple) and o[0] == "bin" and o[1] == "BitOr"):
                return False
            a, b_ = o[2], o[3]
            for x, y in ((a, b_), (b_, a)):
                if load_of(x, "dequeue_pos") and origin_proj_names(y)[1][-1:] == [("f", "closed_channel_mask")]:
                    return True
            return False
        for e in closed:
            for c in pop.conditions(e):
                if c.kind == "cmp" and c.data[0] == "==":
                    if (is_enq(c.data[1]) and is_deq_or_closed(c.data[2])) or (is_enq(c.data[2]) and is_deq_or_closed(c.data[1])):
                        okc = True
        ctx.ob("pop|closed-only-when-drained", okc, "Closed is reported only if the enqueue position equals dequeue position | closed flag (no push in flight)", closed)
    # ---- data: which slot, which stamp (operand-level checks; a wrong mask / operand here keeps every call and branch in place)
    def _index_origins(body):
        out = []
        for st in body.assigns():
            r = st.node["r"]
            if r["r"] == "ref":
                for el in r["pl"]["p"]:
                    if el != "*" and el[0] == "i":
                        out.append((st, body.place_origins({"l": el[1], "p": []}, st)))
        return out

    def _is_pos_and_right_mask(o, field):
        if not (isinstance(o, tuple) and o[0] == "bin" and o[1] == "BitAnd"):
            return False
        for x, y in ((o[2], o[3]), (o[3], o[2])):
            if origin_proj_names(y)[1][-1:] != [("f", "right_mask")]:
                continue
            xs = x[1] if isinstance(x, tuple) and x and x[0] == "multi" else (x,)
            good = True
            for z in xs:
                rt, names = origin_proj_names(z)
                if not (isinstance(rt, tuple) and rt[0] == "call"):
                    good = False
                    continue
                site = Site(body_for_idx[0], rt[1], TERM)
                fld = atomics.receiver_field(body_for_idx[0], site)
                if fld != field:
                    good = False
            if good:
                return True
        return False
    body_for_idx = [pop]
    io = _index_origins(pop)
    ctx.ob("pop|slot-is-dequeue-index", bool(io) and all(len(o) == 1 and _is_pos_and_right_mask(next(iter(o)), "dequeue_pos") for _, o in io),
           "pop addresses the slot dequeue_pos & right_mask", [st for st, _ in io])
    body_for_idx[0] = push
    io = _index_origins(push)
    ctx.ob("push|slot-is-enqueue-index", bool(io) and all(len(o) == 1 and _is_pos_and_right_mask(next(iter(o)), "enqueue_pos") for _, o in io),
           "push addresses the slot enqueue_pos & right_mask (the position just loaded / returned by the failed CAS)", [st for st, _ in io])
    pcl = [c for c in P.children(pop) if any(True for _ in c.aggregates(adt="channel::queue::MessageBorrow"))]
    okb = len(pcl) == 1
    bsites = []
    if okb:
        cb = pcl[0]
        for a in cb.aggregates(adt="channel::queue::MessageBorrow"):
            bsites.append(a)
            fo = dict(zip(a.node["r"]["fields"], a.node["r"]["ops"]))
            body_for_idx[0] = pop
            idx = P.resolved_origins(cb, fo["index"], a) if "index" in fo else frozenset()
            okb = okb and len(idx) == 1 and _is_pos_and_right_mask(next(iter(idx)), "dequeue_pos")
            so = P.resolved_origins(cb, fo["stamp"], a) if "stamp" in fo else frozenset()
            good = False
            for x in so:
                if x[0] == "call" and x[2].endswith("wrapping_add"):
                    # the addition is made inside the closure on the captured stamp
                    ws = Site(cb, x[1], TERM)
                    if (ws.callee or "") != x[2] or len(ws.args()) < 2:
                        continue
                    a0 = P.resolved_origins(cb, ws.args()[0], ws)
                    a1 = P.resolved_origins(cb, ws.args()[1], ws)
                    if loads and a0 == frozenset([("call", loads[0].b, loads[0].callee)]) and \
                            all(origin_proj_names(y)[1][-1:] == [("f", "right_mask")] for y in a1) and a1:
                        good = True
            okb = okb and good
    ctx.ob("pop|borrow-carries-slot-and-next-stamp", okb,
           "the borrow handed out by pop records the popped slot's index and, as the stamp to publish on release, the loaded stamp + right_mask "
           "(i.e. position + capacity-lap - 1: free for the next lap)", bsites)
    # ---- the closed flag: set by close() with closed_channel_mask on enqueue_pos, read by is_closed() with the same mask
    for nm in ("is_closed", "close"):
        qb = ctx.body(Q + nm)
        if qb is None:
            continue
        if nm == "close":
            fo = [x for x in qb.calls("^std::sync::atomic::Atomic::fetch_or$") if atomics.receiver_field(qb, x) == "enqueue_pos"]
            okf = len(fo) == 1 and all(origin_proj_names(o)[1][-1:] == [("f", "closed_channel_mask")] for o in qb.origins(fo[0].args()[1], fo[0]))
            ctx.ob("close|sets-closed-flag", okf and bool(qb.origins(fo[0].args()[1], fo[0])) if fo else False,
                   "close() ORs closed_channel_mask into the enqueue position", fo or [qb.name])
        else:
            rets = [r for r in K.ret_assigns(qb) if not r.is_term]
            okr = len(rets) == 1 and rets[0].node["r"]["r"] == "bin" and rets[0].node["r"]["op"] in ("Ne", "Eq")
            if okr:
                # `(pos & mask) != 0`, or the same test written `(pos & mask) == mask` (the mask is a single bit); either operand order
                rr = rets[0].node["r"]
                is_mask = lambda op: bool(qb.origins(op, rets[0])) and all(origin_proj_names(x)[1][-1:] == [("f", "closed_channel_mask")] for x in qb.origins(op, rets[0]))
                if rr["op"] == "Ne" and rr["b"].get("v") == 0:
                    tested = rr["a"]
                elif rr["op"] == "Ne" and rr["a"].get("v") == 0:
                    tested = rr["b"]
                elif rr["op"] == "Eq" and is_mask(rr["b"]):
                    tested = rr["a"]
                elif rr["op"] == "Eq" and is_mask(rr["a"]):
                    tested = rr["b"]
                else:
                    tested = None
                okr = tested is not None
            if okr:
                ao = qb.origins(tested, rets[0])
                okr = len(ao) == 1
                o = next(iter(ao)) if okr else None
                okr = okr and o[0] == "bin" and o[1] == "BitAnd"
                if okr:
                    sides = (o[2], o[3])
                    ld = [x for x in sides if isinstance(x, tuple) and x[0] == "call" and x[2].endswith("Atomic::load") and
                          atomics.receiver_field(qb, Site(qb, x[1], TERM)) == "enqueue_pos"]
                    mk = [x for x in sides if origin_proj_names(x)[1][-1:] == [("f", "closed_channel_mask")]]
                    okr = len(ld) == 1 and len(mk) == 1
            ctx.ob("is-closed|tests-closed-flag", okr, "is_closed() tests exactly the closed flag of enqueue_pos: (enqueue_pos & closed_channel_mask) != 0, or == closed_channel_mask", rets or [qb.name])
    # ---- MessageBorrow::drop releases the slot with the stamp computed by pop
    db = ctx.body("<channel::queue::MessageBorrow as std::ops::Drop>::drop")
    if db:
        sts = _field_sites(db, "store", "stamp")
        ok = len(sts) == 1 and not db.conditions(sts[0])
        if ok:
            vo = db.origins(sts[0].args()[1], sts[0])
            ok = vo == frozenset([("proj", ("arg", 1), ("f", "stamp"))])
            io = db.origins(sts[0].args()[0], sts[0])
            good = False
            for x in io:
                rt, names = origin_proj_names(x)
                for nme in names:
                    if nme[0] == "i" and len(nme) > 1:
                        lo = db.place_origins({"l": nme[1], "p": []}, sts[0])
                        if lo == frozenset([("proj", ("arg", 1), ("f", "index"))]):
                            good = True
            ok = ok and good
        ctx.ob("borrow-drop|releases-slot", ok, "dropping the borrow stores the stamp prepared by pop into the slot it was popped from (self.index), unconditionally", sts)
        cells = list(db.calls(WITH_MUT))
        ctx.ob("borrow-drop|vacate-before-release", len(cells) == 1 and bool(sts) and db.dominates(cells[0], sts[0]),
               "the box is vacated before the slot is released", cells + sts)


def _strip_last(o):
    """origin without its last field projection (the slot a field belongs to)."""
    if isinstance(o, tuple) and o and o[0] == "proj" and o[2][0] == "f":
        return o[1]
    return o


def rule_b(ctx):
    P = ctx.prog
    snd = P.body("channel::Sender::send::{closure#0}")
    rcv = P.body("channel::Receiver::recv::{closure#0}")
    if not snd or not rcv:
        return ctx.missing("send / recv coroutines")
    notif = list(snd.calls("^diatomic_waker::DiatomicWaker::notify$"))
    ok = len(notif) == 1
    if ok:
        succ = [c for c in snd.conditions(notif[0]) if c.kind == "bool" and c.data[1] is True]
        ok = bool(succ) and not snd.in_loop(notif[0])
    ctx.ob("send|notify-receiver-on-success", ok, "after a successful push the receiver is notified exactly once", notif)
    # the push happens inside the predicate given to sender_signal.wait_until, and the send future awaits it
    waits = list(snd.calls("^async_event::Event::wait_until$"))
    ok = len(waits) == 1
    if ok:
        pred = [P.body(norm(g)) for g in waits[0].node.get("gdefs", [])]
        pred = [p for p in pred if p is not None]
        ok = any(any(True for _ in p.calls(Q + "push$")) for p in pred)
    ctx.ob("send|push-in-wait-until", ok, "the push is retried inside sender_signal.wait_until (a blocked sender is resumed by notify_one)", waits)
    # recv: drop(msg) then notify_one
    drops = [s for s in rcv.calls("^std::mem::drop$") if "channel::queue::MessageBorrow" in (s.node.get("argtys") or [""])[0]]
    n1 = list(rcv.calls("^async_event::Event::notify_one$|^async_event::Event::notify$"))
    ok = len(drops) == 1 and len(n1) == 1 and rcv.dominates(drops[0], n1[0]) and not rcv.in_loop(n1[0])
    ctx.ob("recv|free-slot-then-notify-sender", ok, "the slot is released (drop(msg)) before one blocked sender is notified", drops + n1)
    if ok:
        ys = [y for y in rcv.term_sites("yield") if rcv.can_reach(drops[0], y)]
        late = [y for y in ys if not rcv.dominates(n1[0], y)]
        ctx.ob("recv|notify-before-suspending", bool(ys) and not late,
               "the blocked sender is notified before the receiver can suspend on the message's handler (else the wake-up is lost "
               "when the handler waits for that sender)", [n1[0]] + late)
        call = list(rcv.calls("^channel::MessageFn::call_once$"))
        ctx.ob("recv|take-before-free", len(call) == 1 and rcv.dominates(call[0], drops[0]), "the message is taken out of the slot before the slot is released", call + drops)
    wr = list(rcv.calls("^diatomic_waker::DiatomicWaker::wait_until$"))
    ok = len(wr) == 1
    if ok:
        pred = [P.body(norm(g)) for g in wr[0].node.get("gdefs", [])]
        ok = any(p is not None and any(True for _ in p.calls(Q + "pop$")) for p in pred)
    ctx.ob("recv|pop-in-wait-until", ok, "the pop is retried inside receiver_signal.wait_until", wr)
    # close / drop
    for nm, want in (("channel::Receiver::close", ["notify_all"]), ("<channel::Receiver as std::ops::Drop>::drop", ["notify_all"]),
                     ("channel::Sender::close", ["notify", "notify_all"])):
        b = P.body(nm)
        if b is None:
            ctx.missing(nm)
            continue
        cl = list(b.calls(Q + "close$"))
        ns = [s for s in b.calls(r"^(async_event::Event|diatomic_waker::DiatomicWaker)::notify(_all|_one)?$")]
        have = set(last_seg(s.callee) for s in ns)
        ok = len(cl) == 1 and all(w in have for w in want) and all(b.dominates(cl[0], s) for s in ns) and all(b.postdominates(s, cl[0]) for s in ns)
        ctx.ob("close-then-notify|%s" % nm, ok, "the queue is closed first, then the waiting side(s) are notified", cl + ns)
    sd = P.body("<channel::Sender as std::ops::Drop>::drop")
    if sd:
        cl = list(sd.calls(Q + "close$"))
        ns = list(sd.calls(r"^diatomic_waker::DiatomicWaker::notify$"))
        sub = _field_sites(sd, "fetch_sub", "sender_count")
        ok = len(cl) == 1 and len(ns) == 1 and len(sub) == 1 and sd.dominates(cl[0], ns[0])
        if ok:
            c = [x for x in sd.conditions(cl[0]) if x.kind == "cmp" and x.data[0] == "==" and ("call", sub[0].b, sub[0].callee) in (x.data[1] | x.data[2])
                 and any(y[0] == "const" and y[1] == 1 for y in (x.data[1] | x.data[2]))]
            ok = bool(c)
        ctx.ob("last-sender-closes", ok, "the sender whose decrement observes count 1 closes the queue and wakes the receiver", cl + ns + sub)
        okd = len(sub) == 1 and const_eval_set(sd.origins(sub[0].args()[1], sub[0])) == 1 and not sd.conditions(sub[0])
        ctx.ob("sender-count|drop-subtracts-one", okd, "dropping a sender subtracts exactly one from the sender count, unconditionally", sub)
    # the count is the number of live senders: it starts at zero and every site that makes a Sender adds exactly one
    inits = []
    for b in P.all_bodies():
        if "::tests" in b.name or not b.name.startswith("channel::"):
            continue
        for a in b.aggregates(adt="channel::Inner"):
            fo = dict(zip(a.node["r"]["fields"], a.node["r"]["ops"]))
            if "sender_count" not in fo:
                continue
            o = b.origins(fo["sender_count"], a)
            good = len(o) == 1 and next(iter(o))[0] == "call" and next(iter(o))[2].endswith("Atomic::new")
            if good:
                ns_ = Site(b, next(iter(o))[1], TERM)
                good = const_eval_set(b.origins(ns_.args()[0], ns_)) == 0
            inits.append(a)
            ctx.ob("sender-count|starts-at-zero|%s" % b.name, good, "a new channel has no sender: the count starts at 0 (a biased count never reaches the closing decrement)", [a])
    ctx.ob("floor|sender-count-inits", len(inits) >= 1, "expected >= 1 construction of channel::Inner (found %d)" % len(inits))
    makers = []
    for b in P.all_bodies():
        if "::tests" in b.name or not b.name.startswith(("channel::", "<channel::")):
            continue
        for a in b.aggregates(adt="channel::Sender"):
            adds = _field_sites(b, "fetch_add", "sender_count")
            good = len(adds) == 1 and const_eval_set(b.origins(adds[0].args()[1], adds[0])) == 1 and not b.conditions(adds[0]) and not b.in_loop(adds[0])
            makers.append(a)
            ctx.ob("sender-count|new-sender-adds-one|%s" % b.name, good, "a function that builds a Sender adds exactly one to the sender count", [a] + adds)
    ctx.ob("floor|sender-makers", len(makers) >= 2, "expected >= 2 functions that build a Sender (found %d)" % len(makers))


def rule_c(ctx):
    P = ctx.prog
    nb = ctx.body(Q + "new")
    if not nb:
        return
    # the buffer is built from an iterator over 0..capacity
    rng = list(nb.aggregates(adt="std::ops::Range"))
    ok = False
    for r in rng:
        fo = dict(zip(r.node["r"]["fields"], r.node["r"]["ops"]))
        if fo.get("start", {}).get("v") == 0 and nb.origins(fo["end"], r) == frozenset([("arg", 1)]):
            ok = True
    ctx.ob("new|capacity-slots", ok, "the ring buffer is created with exactly `capacity` slots (0..capacity)", rng)
    asserts = [s for s in nb.sites(include_cleanup=False) if s.is_term and s.node["t"] == "call" and ("panic" in (s.node.get("callee_n") or ""))]
    ctx.ob("new|capacity-validated", len(asserts) >= 1, "the capacity is validated (non-zero, bounded) at construction", asserts)


def rule_d(ctx):
    P = ctx.prog
    callers = P.callers_of(lambda c: c == Q + "pop")
    if not callers:
        ctx.missing("callers of Queue::pop")
    for b, s in callers:
        ok = b.name.startswith("channel::Receiver::recv::") or b.name.startswith("channel::queue::tests")
        ctx.ob("pop-caller|%s" % b.name, ok, "Queue::pop (single consumer, unsafe) may only be called from Receiver::recv", [s])
    a = P.adts.get("channel::Receiver")
    if a:
        ctx.ob("receiver-not-clone", not a["impls"]["Clone"], "Receiver is not Clone (one consumer per mailbox)", ["adt channel::Receiver"])
    rb = P.body("channel::Receiver::recv")
    if rb:
        ctx.ob("recv-takes-mut-self", rb.locals[1]["ty"].startswith("&mut channel::Receiver<"), "recv takes &mut self (no concurrent receives)", [rb.loc()])
    m = P.adts.get("simulation::mailbox::Mailbox")
    if m:
        ctx.ob("mailbox-not-clone", not m["impls"]["Clone"], "Mailbox is not Clone", ["adt Mailbox"])


WITNESS = ['c16::mailbox']  # doctest filters in /verif/witness (thorough tier)

def rule_e(ctx):
    from . import c02
    c02.rule_a(ctx)

ALLBITS = frozenset(["low", "flag", "high"])


def mask_class(o):
    """Abstract value of a mask expression over the bit classes of a queue position word:
    low = index bits, flag = the closed-channel bit, high = sequence-count bits.  None if not a mask expression."""
    if not isinstance(o, tuple) or not o:
        return None
    rt, names = origin_proj_names(o)
    if o[0] == "proj" and names and names[-1] == ("f", "right_mask"):
        return frozenset(["low", "flag"])
    if o[0] == "proj" and names and names[-1] == ("f", "closed_channel_mask"):
        return frozenset(["flag"])
    if o[0] == "un" and o[1] == "Not":
        m = mask_class(o[2])
        return None if m is None else ALLBITS - m
    if o[0] == "bin":
        op = o[1].replace("Unchecked", "")
        a, b = mask_class(o[2]), mask_class(o[3])
        if op == "Shr" and a is not None and isinstance(o[3], tuple) and o[3][0] == "const" and o[3][1] == 1:
            # {low,flag} >> 1 = {low}; anything containing `high` may leak into flag
            if a == frozenset(["low", "flag"]):
                return frozenset(["low"])
            if a == frozenset(["low"]):
                return frozenset(["low"])
            return ALLBITS
        if op == "BitAnd" and a is not None and b is not None:
            return a & b
        if op == "BitOr" and a is not None and b is not None:
            return a | b
    return None


def rule_f(ctx):
    """len() must not depend on the closed flag (abstract interpretation over the three bit classes of a position word)"""
    P = ctx.prog
    nb = ctx.body(Q + "new")
    lb = ctx.body(Q + "len")
    if not nb or not lb:
        return
    # premises: closed_channel_mask = capacity.next_power_of_two(); right_mask = (closed_channel_mask << 1) - 1
    aggs = list(nb.aggregates(adt="channel::queue::Queue"))
    ok = len(aggs) == 1
    if ok:
        fo = dict(zip(aggs[0].node["r"]["fields"], aggs[0].node["r"]["ops"]))
        cm = nb.origins(fo["closed_channel_mask"], aggs[0])
        rm = nb.origins(fo["right_mask"], aggs[0])
        ok = len(cm) == 1 and len(rm) == 1
        if ok:
            c0 = next(iter(cm))
            r0 = next(iter(rm))
            ok = c0[0] == "call" and c0[2].endswith("next_power_of_two") and r0[0] == "call" and r0[2].endswith("wrapping_sub")
            if ok:
                ws = Site(nb, r0[1], TERM)
                a0 = nb.origins(ws.args()[0], ws)
                ok = ws.args()[1].get("v") == 1 and any(x[0] == "bin" and x[1].startswith("Shl") and x[2] == c0 and x[3][0] == "const" and x[3][1] == 1 for x in a0)
    ctx.ob("len|mask-premises", ok,
           "closed_channel_mask = capacity.next_power_of_two() and right_mask = (closed_channel_mask << 1) - 1 (so right_mask = index bits + closed flag)", aggs)
    loads = {}
    for s in lb.calls("^std::sync::atomic::Atomic::load$"):
        loads[("call", s.b, s.callee)] = atomics.receiver_field(lb, s)
    n = 0
    classes = []
    for st in lb.assigns():
        r = st.node["r"]
        if r["r"] != "bin" or r["op"] != "BitAnd":
            continue
        ao = lb.origins(r["a"], st)
        bo = lb.origins(r["b"], st)
        for vo, mo in ((ao, bo), (bo, ao)):
            if len(vo) == 1 and next(iter(vo)) in loads and len(mo) == 1:
                mc = mask_class(next(iter(mo)))
                n += 1
                classes.append((loads[next(iter(vo))], mc))
                ctx.ob("len|mask-excludes-closed-flag|%s#%d" % (loads[next(iter(vo))], n), mc is not None and "flag" not in mc,
                       "every mask that len() applies to a queue position must exclude the closed-channel bit (else a closed, empty mailbox "
                       "reports a non-zero length: spurious entries in deadlock reports); abstract mask = %s" % (sorted(mc) if mc is not None else None), [st])
    want = {("enqueue_pos", frozenset(["low"])), ("dequeue_pos", frozenset(["low"])), ("enqueue_pos", frozenset(["high"])), ("dequeue_pos", frozenset(["high"]))}
    ctx.ob("len|index-and-sequence-parts", want <= set(classes),
           "len() combines the index bits and (separately) the sequence bits of both positions", [lb.loc()])


def _strip0(o):
    """drop the `.0` projection of a checked arithmetic result"""
    while isinstance(o, tuple) and o and o[0] == "proj" and o[2] == ("f", "0"):
        o = o[1]
    return o


def rule_g(ctx):
    """the successor function of queue positions and the initial stamps"""
    P = ctx.prog
    b = ctx.body(Q + "next_queue_pos")
    if b:
        rets = K.ret_assigns(b)
        plus1 = None
        ok_inc = ok_wrap = ok_cond = False
        for r in rets:
            if not r.is_term and r.node["r"]["r"] == "use":
                o = [_strip0(x) for x in b.origins(r.node["r"]["o"], r)]
                if len(o) == 1 and o[0][0] == "bin" and o[0][1].startswith("Add") and o[0][2] == ("arg", 2) and o[0][3][0] == "const" and o[0][3][1] == 1:
                    plus1 = o[0]
                    # taken when (pos + 1) & {index, flag} < buffer.len()
                    for c in b.conditions(r):
                        if c.kind == "cmp" and c.data[0] == "<" and len(c.data[1]) == 1:
                            a = next(iter(c.data[1]))
                            if a[0] == "bin" and a[1] == "BitAnd" and _strip0(a[2]) == plus1 and mask_class(a[3]) == frozenset(["low", "flag"]) and \
                                    any(x[0] == "call" and x[2].endswith("::len") for x in c.data[2]):
                                ok_cond = True
                    ok_inc = True
            elif r.is_term and r.callee and r.callee.endswith("wrapping_add"):
                a0 = [_strip0(x) for x in b.origins(r.args()[0], r)]
                a1 = [_strip0(x) for x in b.origins(r.args()[1], r)]
                seq = len(a0) == 1 and a0[0][0] == "bin" and a0[0][1] == "BitAnd" and a0[0][2] == ("arg", 2) and mask_class(a0[0][3]) == frozenset(["high"])
                inc = len(a1) == 1 and a1[0][0] == "bin" and a1[0][1].startswith("Add") and mask_class(a1[0][2]) == frozenset(["low", "flag"]) and a1[0][3][0] == "const" and a1[0][3][1] == 1
                ok_wrap = seq and inc
        ctx.ob("successor|increment", ok_inc and ok_cond,
               "next_queue_pos returns pos + 1 exactly while the new index is below the buffer length", rets)
        ctx.ob("successor|wrap", ok_wrap,
               "otherwise it returns (sequence bits of pos) + one sequence increment (index wraps to 0, closed flag untouched)", rets)
    nb = ctx.body(Q + "new")
    if nb:
        slots = list(nb.aggregates(adt="channel::queue::Slot"))
        ok = len(slots) == 1
        if ok:
            fo = dict(zip(slots[0].node["r"]["fields"], slots[0].node["r"]["ops"]))
            so = nb.origins(fo["stamp"], slots[0])
            ok = False
            for x in so:
                if x[0] == "call" and x[2].endswith("Atomic::new"):
                    ns = Site(nb, x[1], TERM)
                    io = nb.origins(ns.args()[0], ns)
                    if io and all(origin_proj_names(y)[0][0] == "call" and origin_proj_names(y)[0][2] == "std::iter::Iterator::next" for y in io):
                        ok = True
            ok = ok and nb.in_loop(slots[0])
        ctx.ob("new|stamps-are-slot-indices", ok, "slot i starts with stamp i (free for the first lap)", slots)


RULES = [
    ("C12.g", "position successor function; initial stamps", rule_g),
    ("C12.f", "len() is independent of the closed flag", rule_f),
    ("C12.e", "a blocked send retries the push until a slot is free; closed channels fail the send", rule_e),
    ("C12.a", "ordering floors and slot hand-over discipline", rule_a),
    ("C12.b", "notify pairing", rule_b),
    ("C12.c", "capacity", rule_c),
    ("C12.d", "single consumer", rule_d),
]


def rule_inventory(ctx):
    from . import inventory
    inventory.check(ctx, ['mailbox-push', 'mailbox-pop', 'mailbox-close', 'file:mailbox-queue'])
    inventory.check_narrowing(ctx)


RULES.append(("C12.h", "state-mutation inventory: no new site that changes the content of the state this property rests on", rule_inventory))


def rule_mustpass(ctx):
    from . import mustpass
    mustpass.check(ctx, ['send-completes-after-wait', 'send-ok-notifies-receiver', 'recv-notifies-sender'])


RULES.append(("C12.i", "must-pass-through: no path around the effects this property rests on (added fast paths / early returns)", rule_mustpass))


def rule_commit(ctx):
    from . import mustpass
    for spec in [('mailbox-signals', 12), ('lockfree', 7, r'^channel::queue::')]:
        mustpass.commit_group(ctx, *spec)


RULES.append(("C12.j", "branch-commit: between the decision to perform an effect and the effect there is no way out", rule_commit))
