"""C16 Every model is initialised exactly once, before it handles anything — clauses a..d."""
from ..core import Site, TERM, norm, origin_calls, origin_proj_names, last_seg, Cond, origin_contains
from . import common as K

EXPLANATION = (
    "Decides: (a) the task spawned for a model is one coroutine in which Model::init is called exactly once, outside any "
    "loop, awaited to Ready, and dominates the (only) Receiver::recv site; the receive loop runs on component .0 of the "
    "initialised model and on the same context and receiver that were moved into the task; (b) Model::init has no other "
    "caller, and the only callers of the task-spawning function are SimInit::add_model and BuildContext::add_submodel; "
    "(c) a sub-model's name is parent name + \".\" + child name, both entry points replace an empty *raw* name by "
    "\"<unknown>\" before any qualification, and one and the same name value reaches the model's Context, the model-name "
    "table (at the index used as ModelId, with no registration in between) and the mailbox observer; (d) compile-fail "
    "witnesses (thorough tier): a Mailbox is consumed by add_model and is not Clone, SimInit is consumed by init. "
    "NOT decided: ordering of different models' init under all schedules; that queued messages survive (C12)."
)
TRUSTED = K.TRUSTED

INIT = "model::Model::init"
RECV = "channel::Receiver::recv"
ADD_MODEL = "simulation::add_model"


def model_task(P):
    b = P.body(ADD_MODEL)
    if b is None:
        return None, []
    return b, [c for c in P.children(b) if c.kind == "coroutine"]


def rule_a(ctx):
    P = ctx.prog
    b, cors = model_task(P)
    if b is None or not cors:
        return ctx.missing("simulation::add_model and its task coroutine")
    spawns = [s for s in b.calls("executor::Executor::spawn_and_forget$")]
    ctx.ob("one-task-per-model", len(spawns) == 1 and not b.in_loop(spawns[0]) and not b.conditions(spawns[0]) if spawns else False,
           "add_model spawns exactly one task, unconditionally", spawns)
    cands = [c for c in cors if any(True for _ in c.calls(INIT))]
    ctx.ob("one-task-coroutine", len(cands) == 1, "exactly one coroutine of add_model calls Model::init", [c.loc() for c in cands])
    if len(cands) != 1:
        return
    c = cands[0]
    inits = list(c.calls(INIT))
    recvs = list(c.calls(RECV))
    ok = len(inits) == 1 and len(recvs) == 1
    ctx.ob("init-and-recv-sites", ok, "one Model::init site and one Receiver::recv site in the task", inits + recvs)
    if not ok:
        return
    i, r = inits[0], recvs[0]
    ctx.ob("init-once", not c.in_loop(i) and not c.conditions(i), "init is called once, unconditionally, outside loops", [i])
    ctx.ob("init-before-recv", c.dominates(i, r), "init dominates the first receive", [i, r])
    # awaited to Ready: the model given to recv is the .0 of the Ready payload of the poll of init's future
    mo = c.origins(r.args()[1], r)
    ok = False
    for o in mo:
        rt, names = origin_proj_names(o)
        if rt[0] == "call" and rt[2] == "std::future::Future::poll" and names == [("d", "Ready"), ("f", "0"), ("f", "0")]:
            ps = Site(c, rt[1], TERM)
            fo = c.origins(ps.args()[0], ps)
            if fo == frozenset([("call", i.b, INIT)]):
                ok = True
    ctx.ob("recv-on-initialised-model", ok and len(mo) == 1,
           "the receive loop runs on the model returned by the awaited init() (component .0 of InitializedModel)", [r])
    # same context for init and recv; receiver is the captured one
    ctx.ob("same-context", c.origins(i.args()[1], i) == c.origins(r.args()[2], r) and bool(c.origins(i.args()[1], i)),
           "init and the handlers get the same Context", [i, r])
    # init consumes the captured model
    io = P.resolved_origins(c, i.args()[0], i)
    ctx.ob("init-on-built-model", any(x[0] == "call" and x[2] == "model::ProtoModel::build" for x in io) and len(io) == 1,
           "init is called on the model built from the prototype", [i])
    ro = P.resolved_origins(c, r.args()[0], r)
    ok = False
    for x in ro:
        rt, names = origin_proj_names(x)
        if rt[0] == "arg" and names and names[-1] == ("f", "0"):
            ok = True
    ctx.ob("recv-on-own-mailbox", ok, "the task receives from the receiver of the mailbox passed to add_model", [r])
    # the loop continues only while recv returns Ok (and no abort): recv is re-entered only under is_ok == true
    back = [x for x in c.conditions(r)]
    ctx.ob("recv-in-loop", c.in_loop(r), "the receive is in the task's message loop", [r])


def rule_b(ctx):
    P = ctx.prog
    b, cors = model_task(P)
    if b is None:
        return ctx.missing(ADD_MODEL)
    callers = P.callers_of(lambda c: c == INIT)
    if not callers:
        ctx.missing("callers of Model::init")
    for cb, cs in callers:
        ctx.ob("init-caller|%s" % cb.name, cb.name.startswith(ADD_MODEL + "::"), "Model::init may only be called by the model task", [cs])
    ac = P.callers_of(lambda c: c == ADD_MODEL)
    names = sorted(K.owner_fn(P, cb).name for cb, _ in ac)
    want = ["model::context::BuildContext::add_submodel", "simulation::sim_init::SimInit::add_model"]
    ctx.ob("add-model-callers", names == want, "simulation::add_model is called exactly by SimInit::add_model and BuildContext::add_submodel (found %s)" % names,
           [cs for _, cs in ac])
    recvc = P.callers_of(lambda c: c == RECV)
    for cb, cs in recvc:
        ctx.ob("recv-caller|%s" % cb.name, cb.name.startswith(ADD_MODEL + "::"), "Receiver::recv may only be called by the model task", [cs])


def _raw_name_param(b):
    for i in range(1, b.argc + 1):
        if b.locals[i]["ty"].startswith("impl Into<") or b.locals[i]["ty"] == "impl Into<String>":
            return i
    return None


def rule_c(ctx):
    P = ctx.prog
    # entry points
    for fn, qualified in (("simulation::sim_init::SimInit::add_model", False), ("model::context::BuildContext::add_submodel", True)):
        b = ctx.body(fn)
        if not b:
            continue
        calls = list(b.calls(lambda c: c == ADD_MODEL))
        if len(calls) != 1:
            ctx.missing("call of simulation::add_model in " + fn)
            continue
        cs = calls[0]
        raw = _raw_name_param(b)
        if raw is None:
            ctx.missing("name parameter of " + fn)
            continue
        rawo = frozenset([("arg", raw)])
        # the emptiness test is on the raw name, and "<unknown>" is substituted on its true side
        tests = [s for s in b.calls("^std::string::String::is_empty$|^str::is_empty$|^core::str::<impl str>::is_empty$")]
        ok_test = any(b.origins(t.args()[0], t) == rawo for t in tests)
        ctx.ob("empty-test-on-raw-name|%s" % fn, ok_test,
               "the empty-name test must be applied to the caller's raw name (before any qualification)", tests or [cs])
        unk = []
        for s in b.sites():
            n = s.node
            if s.is_term and n["t"] == "call":
                for a in n["args"]:
                    if a.get("k") == "const" and "<unknown>" in (a.get("text") or ""):
                        unk.append(s)
        ok_unk = bool(unk) and all(any(c.kind == "call" and c.data[0].endswith("is_empty") and c.data[1] is True and
                                        b.origins(c.data[2].args()[0], c.data[2]) == rawo for c in b.conditions(u)) for u in unk)
        ctx.ob("unknown-substituted-iff-empty|%s" % fn, ok_unk, "\"<unknown>\" replaces the name exactly when the raw name is empty", unk or [cs])
        no = b.origins(cs.args()[2], cs)

        def is_base_name(os_):
            return bool(os_) and all(o == ("arg", raw) or (o[0] == "const" and "<unknown>" in str(o[2])) for o in os_) and ("arg", raw) in os_ and len(os_) == 2

        if not qualified:
            ctx.ob("name-is-base|%s" % fn, is_base_name(no), "a top-level model is registered under its (possibly substituted) name", [cs])
        else:
            ok = False
            for o in no:
                if o[0] == "call" and o[2] == "std::ops::Add::add":
                    outer = Site(b, o[1], TERM)
                    left = b.origins(outer.args()[0], outer)
                    right = b.origins(outer.args()[1], outer)
                    if is_base_name(right):
                        for l in left:
                            if l[0] == "call" and l[2] == "std::ops::Add::add":
                                inner = Site(b, l[1], TERM)
                                pl = b.origins(inner.args()[0], inner)
                                dot = inner.args()[1]
                                dot_o = b.origins(dot, inner)
                                pname = any(origin_contains(x, lambda t: t[0] == "proj" and t[2] == ("f", "name")) for x in pl)
                                if pname and all(x[0] == "const" and str(x[2]) == '"."' for x in dot_o):
                                    ok = True
            if not ok and ok_test and ok_unk:
                # `format!("{}.{}", parent, child)` style: the pieces are not visible in MIR; accept when the name is
                # formatted after the raw-name test (the substitution rules above still apply)
                fm = [x for o in no for x in origin_calls(o) if x[2] in ("std::hint::must_use", "alloc::fmt::format", "std::fmt::format")]
                if fm and len(no) == 1 and all(any(b.dominates(t, Site(b, x[1], TERM)) for t in tests) for x in fm):
                    ok = True
            ctx.ob("submodel-name-qualified|%s" % fn, ok and len(no) == 1,
                   "a sub-model is registered as <parent name> + \".\" + <child name or \"<unknown>\"> (origin %s)" % K.describe_origin(no), [cs])
    # inside add_model: the one name value reaches Context::new, model_names.push and the observer
    b = ctx.body(ADD_MODEL)
    if not b:
        return
    name_arg = None
    for i in range(1, b.argc + 1):
        if b.locals[i]["ty"] == "std::string::String":
            name_arg = i
    if name_arg is None:
        return ctx.missing("name parameter of simulation::add_model")
    no = frozenset([("arg", name_arg)])
    cxs = list(b.calls("model::context::Context::new$"))
    ctx.ob("context-name", len(cxs) == 1 and b.origins(cxs[0].args()[0], cxs[0]) == no, "the model's Context carries the registered name", cxs)
    bcs = list(b.calls("model::context::BuildContext::new$"))
    ctx.ob("build-context-name", len(bcs) == 1 and b.origins(bcs[0].args()[1], bcs[0]) == no, "the BuildContext (parent name of sub-models) carries the registered name", bcs)
    pushes = [p for p in b.calls("^std::vec::Vec::push$") if "std::vec::Vec<std::string::String>" in (p.node.get("argtys") or [""])[0]]
    ok = len(pushes) == 1 and b.origins(pushes[0].args()[1], pushes[0]) == no
    ctx.ob("names-table-name", ok, "the model-name table receives the registered name", pushes)
    from . import c11
    c11.rule_f(ctx)
    # error reports take the name from that table and from nowhere else (C11.c)
    c11.rule_c(ctx)
    from . import c06
    c06.rule_d(ctx)




WITNESS = ['c16']  # doctest filters in /verif/witness (thorough tier)

def rule_d(ctx):
    """messages sent to a model before its init are kept in its mailbox"""
    from . import c02, c12
    c02.rule_a(ctx)
    c12.rule_a(ctx)
    c12.rule_b(ctx)
    # an init that sends through an output completes only if the broadcast completes: the broadcaster's polling discipline (C04.h)
    from . import bcast, c03
    for w in ("output", "source"):
        bcast.poll_rules(ctx, w)
    bcast.output_slot_rules(ctx)
    c03.rule_b(ctx)

RULES = [
    ("C16.d", "messages sent before init are enqueued (send completes only when enqueued; slot hand-over discipline)", rule_d),
    ("C16.a", "model task = init().await once, then the receive loop on the initialised model", rule_a),
    ("C16.b", "who may call Model::init / add_model / recv", rule_b),
    ("C16.c", "qualified names; one name value for context, name table and observer", rule_c),
]


def rule_mustpass(ctx):
    from . import mustpass
    mustpass.check(ctx, ['init-runs', 'add-model-spawns-loop', 'add-model-registers', 'sim-init-add-model-delegates', 'add-submodel-delegates', 'model-task-inits', 'model-task-receives', 'model-task-ends-only-on-error-or-abort'])


RULES.append(("C16.e", "must-pass-through: no path around the effects this property rests on (added fast paths / early returns)", rule_mustpass))


def rule_commit(ctx):
    from . import mustpass
    for spec in [('registration', 5), ('mailbox-signals', 12), ('lockfree', 9, r'^channel::queue::|^util::(task_set|cached_rw_lock)::')]:
        mustpass.commit_group(ctx, *spec)


RULES.append(("C16.f", "branch-commit: between the decision to perform an effect and the effect there is no way out", rule_commit))


def rule_inventory(ctx):
    from . import inventory
    inventory.check(ctx, ["mailbox-address", "mailbox-recv", "mailbox-close"])


RULES.append(("C16.g", "state-mutation inventory: no new sender-handle / close site on a model's mailbox (a sub-model's mailbox must stay open until it runs)", rule_inventory))


def rule_shared_links(ctx):
    """An init that sends on a port shared between clones (a sub-model holding a clone of its parent's output) reaches the
    connections made through any clone: the CachedRwLock epoch protocol (C14.d)."""
    from . import c14
    c14.rule_d(ctx)


RULES.append(("C16.h", "messages sent during init through a cloned port see the connections made on any clone (C14.d)", rule_shared_links))


def _bounds(b, o, depth=0):
    """(lower, upper) bound of an integer origin built from constants, the function argument, clamp / max / min."""
    from ..masks import const_eval
    INF = 1 << 70
    if depth > 6:
        return (0, INF)
    v = const_eval(o)
    if v is not None:
        return (v, v)
    if isinstance(o, tuple) and o and o[0] == "call":
        s = Site(b, o[1], TERM)
        nm = last_seg(o[2])
        args = s.args()

        def ab(i):
            os_ = b.origins(args[i], s)
            if not os_:
                return (0, INF)
            bs = [_bounds(b, x, depth + 1) for x in os_]
            return (min(x[0] for x in bs), max(x[1] for x in bs))
        if nm == "clamp" and len(args) == 3:
            lo, hi = ab(1), ab(2)
            return (lo[0], hi[1])
        if nm == "max" and len(args) == 2:
            x, y = ab(0), ab(1)
            return (max(x[0], y[0]), max(x[1], y[1]))
        if nm == "min" and len(args) == 2:
            x, y = ab(0), ab(1)
            return (min(x[0], y[0]), min(x[1], y[1]))
    return (0, INF)


def rule_thread_count(ctx):
    """'all thread counts': whatever count is requested, the executor is built with at least one worker (else no init ever runs)
    and at most usize::BITS workers (the pool manager keeps one bit per worker)."""
    P = ctx.prog
    n = 0
    for b in P.all_bodies():
        if "::tests" in b.name:
            continue
        if b.name.startswith("dev_hooks::"):
            # feature `dev-hooks`: a bare executor handed to benchmarks, not part of any simulation bench (no model, no init);
            # it passes its pool size through as documented and is none of this property's business
            continue
        for s in b.calls(r"^executor::Executor::new_multi_threaded$"):
            n += 1
            os_ = b.origins(s.args()[0], s)
            bs = [_bounds(b, x) for x in os_]
            ok = bool(bs) and all(lo >= 1 and hi <= 64 for lo, hi in bs)
            if not ok:
                # the bounding may live in the constructor itself
                for nm in ("executor::Executor::new_multi_threaded", "executor::mt_executor::Executor::new"):
                    cb = P.body(nm)
                    if cb is None:
                        continue
                    for c in cb.calls(r"::(clamp|max|min)$"):
                        if cb.origins(c.args()[0], c) == frozenset([("arg", 1)]):
                            lo, hi = _bounds(cb, ("call", c.b, c.callee))
                            if lo >= 1 and hi <= 64:
                                ok = True
            ctx.ob("thread-count-clamped|%s" % K.owner_fn(P, b).name, ok,
                   "the worker count handed to the multi-threaded executor is bounded to 1..=usize::BITS (bounds found: %s)" % bs, [s])
    ctx.ob("floor|multi-threaded-executor-sites", n >= 1, "expected >= 1 construction site of the multi-threaded executor (found %d)" % n)


RULES.append(("C16.i", "the executor is built with 1..=usize::BITS workers whatever count is requested", rule_thread_count))
