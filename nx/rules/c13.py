"""C13 Task lifecycle is safe under every interleaving of its handles — structural clauses a..f."""
from ..core import Site, TERM, norm, origin_calls, origin_proj_names, last_seg, Cond, origin_contains
from . import common as K
from .. import atomics
from ..masks import const_eval, const_eval_set, mask_cmp, masked

EXPLANATION = (
    "Decides: (a) the memory-ordering floors of every atomic operation and fence of the task state machine (release on "
    "every reference decrement and state hand-over, acquire before every drop/deallocation and before polling; RMW kinds); "
    "(b) handle constructors (Runnable/Promise/CancelToken::new_unchecked) are only called from spawn, spawn_and_forget "
    "and Task::wake, and wake creates a Runnable only under `state & (WAKE_MASK|CLOSED|POLLING) == POLLING` on the "
    "pre-increment state of its own RMW, after the wake-count overflow guard; (c) the poll of the future is bracketed by a "
    "RunOnDrop cancel guard that is forgotten right after, and every mem::forget in the module forgets such a guard; (d) "
    "every dealloc is guarded by `(state & M) == V` with M covering the whole reference count, V = one reference if the "
    "state comes from an RMW that releases the caller's own reference and 0 otherwise, plus the absence of a Runnable "
    "(POLLING clear in the mask when the RMW may itself have scheduled one, or !runnable_exists / POLLING == 0), and is "
    "preceded by an Acquire fence or acquire RMW; (e) after a Pending poll, run returns without re-polling or cancelling "
    "only if the wake count came back to zero AND the task was not closed; (f) every access to the task core happens "
    "after an acquire-class operation on the state in the same function (or in the function creating the drop guard). "
    "NOT decided: safety of the state machine over all interleavings of handles under the C11 model."
)
TRUSTED = K.TRUSTED

TASK = "executor::task::"
DEALLOC = "^std::alloc::dealloc$"
ATOM = "std::sync::atomic::Atomic::"


def consts(P):
    out = {}
    for n in ("POLLING", "CLOSED", "REF_INC", "WAKE_INC", "REF_MASK", "WAKE_MASK", "REF_CRITICAL", "WAKE_CRITICAL"):
        it = P.items.get(TASK + n)
        out[n] = it["v"] if it else None
    return out


def task_bodies(P):
    return [b for b in P.all_bodies() if b.name.startswith(TASK) and "::tests" not in b.name]


def rule_a(ctx):
    K.check_floors(ctx, "C13")


def rule_b(ctx):
    P = ctx.prog
    C = consts(P)
    if None in C.values():
        return ctx.missing("task state constants")
    allowed = {TASK + "spawn", TASK + "spawn_and_forget", TASK + "Task::wake"}
    n = 0
    for b in P.all_bodies():
        for s in b.calls(r"^executor::task::(runnable::Runnable|promise::Promise|cancel_token::CancelToken)::new_unchecked$"):
            n += 1
            fn = K.owner_fn(P, b).name
            ok = fn in allowed and ("Runnable" in s.callee or fn != TASK + "Task::wake")
            ctx.ob("handle-ctor|%s|%s" % (fn, s.callee.split("::")[-2]), ok, "task handles are only created by spawn, spawn_and_forget and (Runnable only) Task::wake", [s])
    ctx.ob("floor|handle-ctors", n >= 6, "expected >= 6 handle constructor calls (found %d)" % n)
    w = ctx.body(TASK + "Task::wake")
    if not w:
        return
    rmw = [s for s in w.calls("^" + ATOM + "fetch_add$")]
    news = list(w.calls(r"Runnable::new_unchecked$"))
    if len(rmw) != 1 or len(news) != 1:
        return ctx.missing("fetch_add / Runnable::new_unchecked in Task::wake")
    # what the guards on the pre-increment state establish, bit by bit (one combined test or several separate ones)
    known0 = known1 = 0
    for c in w.conditions(news[0]):
        mc = mask_cmp(c)
        if not mc or mc[1] != ("call", rmw[0].b, rmw[0].callee):
            continue
        op, _, m, v = mc
        single = m != 0 and m & (m - 1) == 0
        if op == "==":
            known1 |= m & v
            known0 |= m & ~v
        elif op == "!=" and single and v == 0:
            known1 |= m
        elif op == "!=" and single and v == m:
            known0 |= m
    ok = (known0 & C["WAKE_MASK"]) == C["WAKE_MASK"] and (known0 & C["CLOSED"]) and (known1 & C["POLLING"]) and not (known0 & known1)
    ctx.ob("wake|schedule-iff-idle-polling", ok,
           "a waker creates a Runnable only when the pre-increment state had wake count 0, POLLING set and CLOSED clear "
           "(at most one Runnable per task)", news)
    sched = [s for s in w.calls("^std::ops::Fn::call$")]
    ok = len(sched) == 1 and w.dominates(news[0], sched[0]) and w.origins(sched[0].args()[1], sched[0]) and not w.in_loop(sched[0])
    ctx.ob("wake|schedules-the-runnable", bool(ok), "the new Runnable is handed to the scheduling function once", sched)
    # overflow guard
    guard = False
    for s in w.calls(r"panic_fmt$|^core::panicking::panic"):
        for c in w.conditions(s):
            mc = mask_cmp(c)
            if mc and mc[0] == ">" and mc[2] == C["WAKE_MASK"] and mc[3] == C["WAKE_CRITICAL"] and mc[1] == ("call", rmw[0].b, rmw[0].callee):
                guard = True
    ctx.ob("wake|overflow-guard", guard,
           "wake panics when the wake count passes WAKE_CRITICAL (otherwise the count can wrap to 0 while a Runnable is polling and a "
           "second Runnable is created)", rmw)
    # the guard is evaluated before scheduling
    cw = ctx.body(TASK + "Task::clone_waker")
    if cw:
        guard = False
        for s in cw.calls(r"panic_fmt$|^core::panicking::panic"):
            for c in cw.conditions(s):
                mc = mask_cmp(c)
                if mc and mc[0] == ">" and mc[2] == C["REF_MASK"] and mc[3] == C["REF_CRITICAL"]:
                    guard = True
        ctx.ob("clone|overflow-guard", guard, "clone_waker panics when the reference count passes REF_CRITICAL", [cw.loc()])
    # initial states
    for fn, refs in ((TASK + "spawn", 2), (TASK + "spawn_and_forget", 1)):
        sb = P.body(fn)
        if sb is None:
            ctx.missing(fn)
            continue
        news = list(sb.calls("^" + ATOM + "new$"))
        ok = False
        for s in news:
            v = const_eval_set(sb.origins(s.args()[0], s))
            if v == (refs * C["REF_INC"]) | C["WAKE_INC"] | C["POLLING"]:
                ok = True
        ctx.ob("initial-state|%s" % last_seg(fn), ok, "the initial state counts %d reference(s), one wake (the returned Runnable) and POLLING" % refs, news)


def rule_c(ctx):
    P = ctx.prog
    run = ctx.body(TASK + "runnable::run")
    if not run:
        return
    polls = [s for s in run.calls("^std::future::Future::poll$")]
    ctx.ob("run|one-poll-site", len(polls) == 1, "run polls the future at one site", polls)
    forgets = list(run.calls("^std::mem::forget$"))
    guards = [s for s in run.calls(r"^executor::task::util::RunOnDrop::new$")]
    if len(polls) == 1:
        p = polls[0]
        # a guard created before the poll (dominating) whose closure calls cancel, forgotten right after the poll
        pre = [g for g in guards if run.dominates(g, p)]
        okg = False
        for g in pre:
            co = run.origins(g.args()[0], g)
            for o in co:
                if o[0] == "agg" and o[3]:
                    cb = P.body(o[3])
                    if cb is not None and any(True for _ in cb.calls(r"^executor::task::runnable::cancel$")):
                        # forgotten after the poll on the normal path, before anything else can panic
                        fs = [f for f in forgets if run.origins(f.args()[0], f) == frozenset([("call", g.b, g.callee)])]
                        if fs and all(run.dominates(p, f) for f in fs) and any(run.postdominates(f, p) for f in fs):
                            # live across the poll: no drop of the guard between creation and poll
                            okg = True
        ctx.ob("run|poll-bracketed-by-cancel-guard", okg,
               "the poll is executed with a drop guard that cancels the task if the future panics, and the guard is forgotten right after", pre + [p])
    # every forget in the task module forgets a RunOnDrop guard created in the same function
    n = 0
    for b in task_bodies(P):
        for f in b.calls("^std::mem::forget$"):
            n += 1
            o = b.origins(f.args()[0], f)
            ok = bool(o) and all(x[0] == "call" and x[2] == "executor::task::util::RunOnDrop::new" for x in o)
            ctx.ob("forget-only-guards|%s" % b.name, ok, "mem::forget in the task module is only applied to RunOnDrop guards", [f])
    ctx.ob("floor|forgets", n == 3, "exactly the 3 reviewed mem::forget sites exist in the task module (found %d)" % n)
    # RunOnDrop runs its closure on drop
    d = P.body("<executor::task::util::RunOnDrop as std::ops::Drop>::drop")
    if d is None:
        ctx.missing("RunOnDrop::drop")
    else:
        cs = list(d.calls(r"^std::ops::FnMut::call_mut$|^std::ops::FnOnce::call_once$|^std::ops::Fn::call$"))
        ok = len(cs) == 1 and not d.conditions(cs[0]) and d.origins(cs[0].args()[0], cs[0]) == frozenset([("proj", ("arg", 1), ("f", "drop_fn"))])
        ctx.ob("run-on-drop-runs-closure", ok, "dropping a RunOnDrop guard runs its closure unconditionally", cs)


def _producer(P, b, xo, C):
    """classify the RMW that produced the state value X: returns (kind, releases_own_ref: True/False/'maybe', may_schedule)"""
    if not (isinstance(xo, tuple) and xo and xo[0] == "call"):
        # fetch_update(...).unwrap() is transparent (unwrap) -> call; Err payload of fetch_update etc.
        rt, names = origin_proj_names(xo)
        if rt and rt[0] == "call":
            xo = rt
        else:
            return ("unknown", None, False)
    s = Site(b, xo[1], TERM)
    c = xo[2]
    if c == ATOM + "fetch_sub":
        d = const_eval_set(b.origins(s.args()[1], s))
        return ("fetch_sub", d == C["REF_INC"], False)
    if c in (ATOM + "fetch_and", ATOM + "fetch_or", ATOM + "load"):
        return (last_seg(c), False, False)
    if c == ATOM + "fetch_add":
        d = const_eval_set(b.origins(s.args()[1], s))
        return ("fetch_add", d is not None and (d & C["REF_MASK"]) == C["REF_MASK"], False)
    if c == ATOM + "fetch_update":
        # does the update closure subtract a reference on some branch?
        sub = False
        for g in s.node.get("gdefs", []):
            cb = P.body(norm(g))
            if cb is None:
                continue
            for st in cb.assigns():
                r = st.node["r"]
                if r["r"] == "bin" and r["op"].startswith("Sub") and (const_eval_set(cb.origins(r["b"], st)) == C["REF_INC"]):
                    sub = True
        return ("fetch_update", "maybe" if sub else False, False)
    if c == TASK + "Task::wake":
        d = const_eval_set(b.origins(s.args()[1], s))
        return ("wake", d is not None and (d & C["REF_MASK"]) == C["REF_MASK"], True)
    return (last_seg(c), None, False)


def rule_d(ctx):
    P = ctx.prog
    C = consts(P)
    if None in C.values():
        return ctx.missing("task state constants")
    n = 0
    for b in task_bodies(P):
        for d in b.calls(DEALLOC):
            n += 1
            conds = [(b, c) for c in b.conditions(d)]
            ctxb = b
            # a dealloc inside a drop-guard closure inherits the conditions of the guard's creation
            if b.kind == "Closure":
                for cs in P.creation_sites(b):
                    conds += [(cs.body, c) for c in cs.body.conditions(cs)]
            found = None
            for (cb, c) in conds:
                mc = mask_cmp(c)
                if mc and mc[0] == "==" and (mc[2] & C["REF_MASK"]) == C["REF_MASK"] and (mc[3] & ~C["REF_INC"] & C["REF_MASK"]) == 0:
                    found = (cb, c, mc)
            key = "%s" % b.name
            if not found:
                ctx.ob("dealloc-guard|" + key, False, "dealloc must be guarded by a test that the reference count (all REF_MASK bits) is zero / last", [d])
                continue
            cb, c, (op, X, M, V) = found
            kind, releases, may_sched = _producer(P, cb, X, C)
            want_v = C["REF_INC"] if releases in (True, "maybe") else 0
            okv = (V & C["REF_MASK"]) == want_v and releases is not None
            ctx.ob("dealloc-refcount|" + key, okv,
                   "the compared reference count must be %s because the state comes from %s (%s its own reference)" %
                   ("one" if want_v else "zero", kind, "which releases" if want_v else "which does not release"), [d, c.site])
            # absence of a Runnable when a non-Runnable handle deallocates
            if want_v:
                polling_in_mask = bool(M & C["POLLING"]) and not (V & C["POLLING"])
                no_runnable = polling_in_mask
                for (cb2, c2) in conds:
                    if c2.kind == "call" and c2.data[0] == TASK + "util::runnable_exists" and c2.data[1] is False:
                        if not may_sched:
                            no_runnable = True
                    m2 = mask_cmp(c2)
                    if m2 and m2[0] == "==" and m2[2] == C["POLLING"] and m2[3] == 0:
                        no_runnable = True
                ctx.ob("dealloc-no-runnable|" + key, no_runnable,
                       "the last handle may deallocate only if no Runnable exists; when the state is the pre-RMW value of a wake "
                       "(which may itself have scheduled a Runnable) POLLING must be part of the compared mask", [d, c.site])
            # acquire before dealloc
            acq = False
            where = [b] + [cs.body for cs in P.creation_sites(b)] if b.kind == "Closure" else [b]
            for wb in where:
                tgt = d if wb is b else P.creation_sites(b)[0]
                for s in wb.calls(atomics.ATOMIC_RX):
                    tys = s.node.get("argtys", [])
                    ords = [atomics.ordering_of(wb, a, s) for a, t in zip(s.node["args"], tys) if t == "std::sync::atomic::Ordering"]
                    if ords and ords[0] in ("Acquire", "AcqRel", "SeqCst") and wb.dominates(s, tgt):
                        acq = True
            ctx.ob("dealloc-after-acquire|" + key, acq, "an Acquire fence / acquire RMW precedes the deallocation", [d])
    ctx.ob("floor|dealloc-sites", n >= 10, "expected >= 10 dealloc sites in the task module (found %d)" % n)


def rule_e(ctx):
    P = ctx.prog
    C = consts(P)
    run = ctx.body(TASK + "runnable::run")
    if not run or None in C.values():
        return
    subs = [s for s in run.calls("^" + ATOM + "fetch_sub$")]
    polls = [s for s in run.calls("^std::future::Future::poll$")]
    cancels = [s for s in run.calls("^executor::task::runnable::cancel$")]
    if len(subs) != 1 or len(polls) != 1 or not cancels:
        return ctx.missing("fetch_sub / poll / cancel in runnable::run")
    F, p = subs[0], polls[0]
    fo = ("call", F.b, F.callee)
    blocked = set([p.b] + [c.b for c in cancels])

    def edges(pred):
        out = []
        for blk in sorted(run.live_blocks):
            if run.blocks[blk]["term"]["t"] != "switch":
                continue
            for tgt in run.succ[blk]:
                c = Cond(run, blk, tgt)
                if pred(c):
                    out.append((blk, tgt))
        return out

    def reach_return(removed):
        seen = set()
        stack = list(run.succ[F.b])
        rem = set(removed)
        while stack:
            x = stack.pop()
            if x in seen or x in blocked:
                continue
            seen.add(x)
            if run.blocks[x]["term"]["t"] == "return":
                return True
            for s in run.succ[x]:
                if (x, s) not in rem:
                    stack.append(s)
        return False

    def closed_clear(c):
        mc = mask_cmp(c)
        return bool(mc) and mc[0] == "==" and mc[1] == fo and mc[2] == C["CLOSED"] and mc[3] == 0

    def wake_zero(c):
        if c.kind != "cmp" or c.data[0] != "==":
            return False
        A, B = c.data[1], c.data[2]
        for x, y in ((A, B), (B, A)):
            if const_eval_set(y) == 0 and len(x) == 1:
                o = next(iter(x))
                rt, _ = origin_proj_names(o)
                if rt[0] == "bin" and rt[1].startswith("Sub"):
                    m = masked(rt[2])
                    if m and m[0] == fo and m[1] == C["WAKE_MASK"]:
                        return True
        return False

    ctx.ob("run|sanity-return-reachable", reach_return([]), "after a Pending poll run can return", [F])
    e1 = edges(closed_clear)
    ctx.ob("run|return-only-if-not-closed", bool(e1) and not reach_return(e1),
           "after a Pending poll, run may return without re-polling or cancelling only on the `state & CLOSED == 0` branch of the "
           "post-poll RMW (a cancellation during the poll must be honoured by this Runnable)", [F])
    e2 = edges(wake_zero)
    ctx.ob("run|return-only-if-wake-count-cleared", bool(e2) and not reach_return(e2),
           "after a Pending poll, run may return only if the wake count dropped to zero (a wake-up during the poll leads to another poll)", [F])
    # the value subtracted is the wake count observed at entry / after the previous RMW
    so = run.origins(F.args()[1], F)
    ok = bool(so)
    for o in so:
        m = masked(o)
        rt, _ = origin_proj_names(o)
        ok = ok and (bool(m) and m[1] == C["WAKE_MASK"] or (rt[0] == "bin" and rt[1].startswith("Sub")))
    ctx.ob("run|subtracts-observed-wake-count", ok, "the post-poll RMW subtracts exactly the wake count this Runnable has already serviced", [F])
    # closed at loop head -> cancel
    for c in cancels:
        ok = any((mask_cmp(x) or (None, None, None, None))[2] == C["CLOSED"] for x in run.conditions(c))
        ctx.ob("run|cancel-iff-closed", ok, "run cancels (drops the future) when it observes CLOSED", [c])
    ctx.ob("run|closed-checked-before-poll", any(any((mask_cmp(x) or (0, 0, 0, 1))[2] == C["CLOSED"] and (mask_cmp(x) or (0, 0, 0, 1))[0] in ("!=", "==") for x in run.conditions(p)) for _ in [0]),
           "the future is polled only after CLOSED was tested clear", [p])


def rule_f(ctx):
    P = ctx.prog
    n = 0
    exempt = {TASK + "spawn", TASK + "spawn_and_forget"}
    for b in task_bodies(P):
        for s in b.calls(r"^loom_exports::cell::UnsafeCell::with(_mut)?$"):
            o = P.resolved_origins(b, s.args()[0], s)
            if not any(origin_proj_names(x)[1][-1:] == [("f", "core")] for x in o):
                continue
            n += 1
            owner = K.owner_fn(P, b).name
            if owner in exempt:
                continue
            acq = False
            for a in b.calls(atomics.ATOMIC_RX):
                tys = a.node.get("argtys", [])
                ords = [atomics.ordering_of(b, x, a) for x, t in zip(a.node["args"], tys) if t == "std::sync::atomic::Ordering"]
                if ords and ords[0] in ("Acquire", "AcqRel", "SeqCst") and b.dominates(a, s):
                    acq = True
            if not acq and b.kind == "Closure":
                for cs in P.creation_sites(b):
                    for a in cs.body.calls(atomics.ATOMIC_RX):
                        tys = a.node.get("argtys", [])
                        ords = [atomics.ordering_of(cs.body, x, a) for x, t in zip(a.node["args"], tys) if t == "std::sync::atomic::Ordering"]
                        if ords and ords[0] in ("Acquire", "AcqRel", "SeqCst") and cs.body.dominates(a, cs):
                            acq = True
            ctx.ob("core-access-after-acquire|%s" % b.name, acq,
                   "the future/output cell is accessed only after an acquire-class operation on the task state in the same function", [s])
    ctx.ob("floor|core-accesses", n >= 10, "expected >= 10 accesses to the task core (found %d)" % n)


RULES = [
    ("C13.a", "ordering floors of the task state machine", rule_a),
    ("C13.b", "handle constructors; one Runnable per task; overflow guards", rule_b),
    ("C13.c", "poll bracketed by a cancel guard; forget only forgets guards", rule_c),
    ("C13.d", "dealloc only by the last reference, without Runnable, after acquire", rule_d),
    ("C13.e", "post-poll return only if wake count cleared and not closed", rule_e),
    ("C13.f", "core accessed after acquire", rule_f),
]


def rule_inventory(ctx):
    from . import inventory
    inventory.check(ctx, ['file:st_executor', 'file:mt_executor', 'file:injector'])
    inventory.check_narrowing(ctx)


RULES.append(("C13.g", "state-mutation inventory: no new site that changes the content of the state this property rests on", rule_inventory))


def rule_worker_loops(ctx):
    from . import c04
    c04.mt_worker_loop_rule(ctx)
    # no runnable task is dropped (= cancelled) or stranded when queues overflow or work is stolen
    c04.rule_task_handover(ctx)
    c04.rule_search_handover(ctx)
    c04.rule_pool_bits(ctx)
    c04.rule_executor_identity(ctx)


RULES.append(("C13.h", "run loops stop only when the worker's queues are empty (a task left in a parked worker's queue is a wake-up that does not lead to a poll)", rule_worker_loops))


def rule_mustpass(ctx):
    from . import mustpass
    mustpass.check(ctx, ['st-spawn-enqueues', 'mt-spawn-enqueues', 'wakers-wake', 'wake-updates-state'])


RULES.append(("C13.i", "must-pass-through: no path around the effects this property rests on (added fast paths / early returns)", rule_mustpass))


def rule_commit(ctx):
    from . import mustpass
    for g, floor in [('task-release', 40), ('pool', 40), ('task-wake', 10)]:
        mustpass.commit_group(ctx, g, floor)


RULES.append(("C13.j", "branch-commit: between the decision to perform an effect and the effect there is no way out", rule_commit))


def rule_runnable_exists(ctx):
    """The predicate every releasing path uses to decide whether a Runnable still owns the future:
    runnable_exists(state) == (state & POLLING != 0) && (state & (WAKE_MASK | CLOSED) != 0).
    Dropping the CLOSED term makes a handle released during the wind-down of a cancelled poll free the task under the Runnable."""
    from ..masks import masked, mask_cmp, const_eval
    P = ctx.prog
    b = ctx.body(TASK + "util::runnable_exists")
    if b is None:
        return
    c = consts(P)
    if None in (c["POLLING"], c["CLOSED"], c["WAKE_MASK"]):
        return ctx.missing("task state constants")
    rets = [r for r in K.ret_assigns(b) if not r.is_term]
    var = []
    ok_const = True
    for r in rets:
        rv = r.node["r"]
        if rv["r"] == "use" and rv["o"].get("k") == "const":
            ok_const = ok_const and rv["o"].get("v") in (False, 0)
            continue
        var.append(r)
    ok = len(var) == 1 and ok_const
    sites = list(var)
    if ok:
        r = var[0]
        rv = r.node["r"]
        ok = rv["r"] == "bin" and rv.get("op") in ("Ne", "Gt")
        if ok:
            lo = b.origins(rv["a"], r) if "a" in rv else frozenset()
            ro = b.origins(rv["b"], r) if "b" in rv else frozenset()
            m = masked(next(iter(lo))) if len(lo) == 1 else None
            zero = len(ro) == 1 and const_eval(next(iter(ro))) == 0
            ok = m is not None and zero and m[0] == ("arg", 1) and m[1] == (c["WAKE_MASK"] | c["CLOSED"])
            conds = [mask_cmp(x) for x in b.conditions(r)]
            # `state & POLLING != 0` or the equivalent `state & POLLING == POLLING`
            ok = ok and _bit_implied([x for x in conds if x is not None and x[1] == ("arg", 1)], c["POLLING"], 1)
    ctx.ob("runnable-exists-definition", ok,
           "runnable_exists(state) is (state & POLLING != 0) && (state & (WAKE_MASK | CLOSED) != 0): a cancelled task that is still being "
           "polled (CLOSED|POLLING, wake count already reset) is still owned by its Runnable", sites or [b.name])


RULES.append(("C13.k", "the runnable_exists predicate covers the wind-down phase", rule_runnable_exists))


def rule_state_layout(ctx):
    """The packed task state word: two flag bits, a reference count and a wake count in disjoint bit fields (every mask-based
    clause above evaluates conditions with these constants; a layout in which the fields overlap makes them meaningless)."""
    c = consts(ctx.prog)
    if any(v is None for v in c.values()):
        return ctx.missing("task state constants")
    M = (1 << 64) - 1
    pop = lambda x: bin(x).count("1")
    top = lambda m: 1 << (m.bit_length() - 1)
    checks = [
        ("flags-are-distinct-single-bits", pop(c["POLLING"]) == 1 and pop(c["CLOSED"]) == 1 and c["POLLING"] != c["CLOSED"]),
        ("increments-are-powers-of-two-above-the-flags", pop(c["REF_INC"]) == 1 and pop(c["WAKE_INC"]) == 1 and
         c["REF_INC"] > (c["POLLING"] | c["CLOSED"]) and c["WAKE_INC"] > c["REF_INC"]),
        ("ref-field", c["REF_MASK"] == ((c["WAKE_INC"] - 1) & ~(c["REF_INC"] - 1)) & M),
        ("wake-field", c["WAKE_MASK"] == (~(c["WAKE_INC"] - 1)) & M),
        ("fields-disjoint-and-covering", (c["POLLING"] | c["CLOSED"]) & (c["REF_MASK"] | c["WAKE_MASK"]) == 0 and c["REF_MASK"] & c["WAKE_MASK"] == 0 and
         (c["REF_MASK"] | c["WAKE_MASK"] | (c["REF_INC"] - 1)) == M),
        ("overflow-guards-are-half-the-field", c["REF_CRITICAL"] == (c["REF_MASK"] >> 1) & c["REF_MASK"] and
         c["WAKE_CRITICAL"] == (c["WAKE_MASK"] >> 1) & c["WAKE_MASK"]),
    ]
    vals = ", ".join("%s=%#x" % kv for kv in sorted(c.items()))
    for k, ok in checks:
        ctx.ob("state-layout|" + k, ok, "task state word layout: " + k.replace("-", " ") + " (" + vals + ")",
               ["const executor::task::" + n for n in sorted(c)])


RULES.append(("C13.l", "layout of the packed task state word", rule_state_layout))


def _bit_implied(mcs, bit, want):
    """do the mask comparisons (op, X, mask, value) establish that `bit` of the state is `want` (0/1)?"""
    for mc in mcs:
        if mc is None:
            continue
        op, _, m, v = mc
        if not (m & bit):
            continue
        if op == "==" and bool(v & bit) == bool(want):
            return True
        # single-bit mask: != 0 means set, != bit means clear
        if op == "!=" and m == bit and bool(v & bit) != bool(want):
            return True
    return False


def rule_union_member(ctx):
    """The task stores its future and its output in one union. A handle (waker, promise, cancel token) that finds itself responsible
    for the content drops the *future* only in a polling phase (POLLING set) and the *output* only in the Completed phase
    (POLLING clear and CLOSED clear: a Closed task has no output any more - it was taken or never produced)."""
    P = ctx.prog
    C = consts(P)
    if None in C.values():
        return ctx.missing("task state constants")
    n = 0
    for b in task_bodies(P):
        if b.kind != "Closure":
            continue
        owner = K.owner_fn(P, b).name
        if owner.startswith(TASK + "runnable::") or owner.startswith(TASK + "promise::poll"):
            continue  # the Runnable / the polling promise own the content by construction (C13.e, C13.f)
        for s in b.calls(r"ManuallyDrop::(drop|take)$"):
            mem = set()
            for x in b.origins(s.args()[0], s):
                _, names = origin_proj_names(x)
                mem |= set(nm[1] for nm in names if nm[0] == "f")
            mem &= {"future", "output"}
            if len(mem) != 1:
                ctx.ob("union-member|%s" % b.name, False, "cannot tell which union member is dropped", [s])
                continue
            member = next(iter(mem))
            mcs = []
            for cs in P.creation_sites(b):
                mcs += [mask_cmp(c) for c in cs.body.conditions(cs)]
            n += 1
            if member == "output":
                ok = _bit_implied(mcs, C["CLOSED"], 0) and _bit_implied(mcs, C["POLLING"], 0)
                msg = "the output is dropped only in the Completed phase: POLLING clear and CLOSED clear (a Closed task holds no output)"
            else:
                ok = _bit_implied(mcs, C["POLLING"], 1)
                msg = "the future is dropped by a handle only in a polling phase (POLLING set)"
            ctx.ob("union-member|%s|%s" % (owner, member), ok, msg, [s])
    ctx.ob("floor|union-member-drops", n >= 8, "expected >= 8 handle-side drops of the task's future/output (found %d)" % n)


RULES.append(("C13.m", "which union member (future / output) a handle may drop in which phase", rule_union_member))


def _state_effect(o):
    """effect of an expression over the old state `s` (closure argument): (or_mask, and_mask, sub) or None if not of that form."""
    from ..masks import const_eval
    M = (1 << 64) - 1
    if isinstance(o, tuple) and o and o[0] == "arg":
        return (0, M, 0)
    if isinstance(o, tuple) and o and o[0] == "proj" and o[2] == ("f", "0"):
        return _state_effect(o[1])
    if isinstance(o, tuple) and o and o[0] == "bin":
        op = o[1].replace("WithOverflow", "").replace("Unchecked", "")
        for x, y in ((o[2], o[3]), (o[3], o[2])):
            c = const_eval(y)
            if c is None:
                continue
            e = _state_effect(x)
            if e is None:
                continue
            orm, andm, sub = e
            if op == "BitOr":
                return (orm | c, andm, sub)
            if op == "BitAnd":
                return (orm & c, andm & c, sub)
            if op == "Sub" and y is o[3]:
                return (orm, andm, sub + c)
            return None
    return None


def rule_cancel_refcount(ctx):
    """CancelToken::cancel updates the state with one fetch_update. The token's reference is released exactly once: inside the update
    when nothing is left for the canceller to drop (task not polling, or a Runnable exists and will drop the future), otherwise by the
    drop guard after the canceller dropped the future. Each branch also sets CLOSED when the task was still polling."""
    P = ctx.prog
    C = consts(P)
    if None in C.values():
        return ctx.missing("task state constants")
    M = (1 << 64) - 1
    b = ctx.body(TASK + "cancel_token::cancel")
    if b is None:
        return
    fus = list(b.calls("^" + ATOM + "fetch_update$"))
    cbs = [P.body(norm(g)) for fu in fus for g in (fu.node.get("gdefs") or [])]
    cbs = [c for c in cbs if c is not None]
    if len(fus) != 1 or len(cbs) != 1:
        return ctx.missing("the fetch_update of cancel_token::cancel and its closure")
    cb = cbs[0]
    rets = [r for r in K.ret_assigns(cb) if not r.is_term and r.node["r"]["r"] == "agg" and r.node["r"].get("variant") == "Some"]
    seen = set()
    for r in rets:
        o = cb.origins(r.node["r"]["ops"][0], r)
        eff = _state_effect(next(iter(o))) if len(o) == 1 else None
        conds = cb.conditions(r)
        mcs = [mask_cmp(c) for c in conds]
        mcs = [m for m in mcs if m is None or m[1] == ("arg", 2)]
        not_polling = _bit_implied(mcs, C["POLLING"], 0)
        polling = _bit_implied(mcs, C["POLLING"], 1)
        rex = [c.data[1] for c in conds if c.kind == "call" and c.data[0] == TASK + "util::runnable_exists"]
        if not_polling:
            branch, want = "not-polling", (0, M, C["REF_INC"])
        elif polling and rex == [True]:
            branch, want = "runnable-exists", (C["CLOSED"], M, C["REF_INC"])
        elif polling and rex == [False]:
            branch, want = "canceller-drops", (C["CLOSED"] & ~C["POLLING"], M & ~C["POLLING"], 0)
        else:
            branch, want = "unclassified", None
        seen.add(branch)
        ctx.ob("cancel-update|%s" % branch, eff is not None and eff == want,
               "new state on the `%s` branch: %s" % (branch, {
                   "not-polling": "s - REF_INC (nothing to drop, reference released at once)",
                   "runnable-exists": "(s | CLOSED) - REF_INC (the Runnable drops the future; reference released at once)",
                   "canceller-drops": "(s | CLOSED) & !POLLING (the canceller drops the future; the reference is released afterwards by the guard)",
               }.get(branch, "?")), [r])
    ctx.ob("cancel-update|three-branches", seen == {"not-polling", "runnable-exists", "canceller-drops"},
           "the update distinguishes: not polling / a Runnable exists / the canceller must drop (found %s)" % sorted(seen), rets)
    # the deferred release: a fetch_sub(REF_INC) inside a drop guard created only on the canceller-drops side
    guards = []
    for g in P.children(b):
        for s in g.calls("^" + ATOM + "fetch_sub$"):
            if const_eval_set(g.origins(s.args()[1], s)) == C["REF_INC"]:
                guards.append((g, s))
    ok = len(guards) == 1
    if ok:
        g, s = guards[0]
        cs = P.creation_sites(g)
        ok = len(cs) == 1
        if ok:
            conds = b.conditions(cs[0])
            mcs = [mask_cmp(c) for c in conds]
            ok = _bit_implied(mcs, C["POLLING"], 1) and any(c.kind == "call" and c.data[0] == TASK + "util::runnable_exists" and c.data[1] is False for c in conds)
    ctx.ob("cancel-deferred-release", ok,
           "the reference that the update kept is released by one drop guard (fetch_sub(REF_INC)) created exactly on the path where the task was "
           "polling and no Runnable existed", [s for _, s in guards])


RULES.append(("C13.n", "CancelToken::cancel releases its reference exactly once (state update table + deferred release)", rule_cancel_refcount))


def rule_state_updates(ctx):
    """Every conditional state transition of the task (fetch_update closures) equals its reviewed table: for each branch, the
    mask conditions on the old state and the new state as (bits set, bits kept, amount subtracted). These closures are pure data:
    a wrong constant or operator in one of them keeps every call and branch of the module in place."""
    P = ctx.prog
    C = consts(P)
    if None in C.values():
        return ctx.missing("task state constants")
    M = (1 << 64) - 1
    NP = M & ~C["POLLING"]
    want = {
        TASK + "promise::poll": {
            ("Some", (C["CLOSED"], M, 0), (("==", C["POLLING"] | C["CLOSED"], 0),)),
            ("None", None, (("!=", C["POLLING"] | C["CLOSED"], 0),)),
        },
        TASK + "runnable::run": {
            ("None", None, ()),
            ("Some", (0, NP, 0), (("!=", C["CLOSED"], C["CLOSED"]), ("!=", C["REF_MASK"], 0))),
            ("Some", (C["CLOSED"] & NP, NP, 0), ()),
        },
        TASK + "runnable::cancel": {
            ("Some", (C["CLOSED"] & NP, NP, 0), ()),
        },
    }
    got = {}
    sites = {}
    for b in task_bodies(P):
        for fu in b.calls("^" + ATOM + "fetch_update$"):
            for g in fu.node.get("gdefs") or []:
                cb = P.body(norm(g))
                if cb is None:
                    continue
                owner = K.owner_fn(P, cb).name
                for r in K.ret_assigns(cb):
                    if r.is_term or r.node["r"]["r"] != "agg":
                        got.setdefault(owner, set()).add(("?", None, ()))
                        continue
                    rv = r.node["r"]
                    eff = None
                    if rv.get("variant") == "Some":
                        o = cb.origins(rv["ops"][0], r)
                        eff = _state_effect(next(iter(o))) if len(o) == 1 else "?"
                    conds = []
                    for c in cb.conditions(r):
                        mc = mask_cmp(c)
                        if mc:
                            # the tested word must be the closure's own argument (the value the RMW is about to replace), not a
                            # state captured earlier: a stale test makes the transition ignore a concurrent change
                            if mc[1] == ("arg", 2):
                                conds.append((mc[0], mc[2], mc[3]))
                            else:
                                conds.append(("stale-operand", mc[2], mc[3]))
                        elif c.kind == "call":
                            conds.append(("call", c.data[0], c.data[1]))
                    got.setdefault(owner, set()).add((rv.get("variant"), eff, tuple(sorted(conds, key=str))))
                    sites.setdefault(owner, []).append(r)
    for owner, table in sorted(want.items()):
        t = set((v, e, tuple(sorted(c, key=str))) for v, e, c in table)
        ctx.ob("state-update-table|%s" % owner, got.get(owner) == t,
               "the fetch_update closure(s) of %s implement the reviewed transition table (found %s)" % (
                   owner, sorted(((v, tuple(hex(x) for x in e) if isinstance(e, tuple) else e, c) for v, e, c in got.get(owner, set())), key=str)),
               sites.get(owner, [owner]))
    extra = sorted(set(got) - set(want) - {TASK + "cancel_token::cancel"})
    ctx.ob("state-update-table|no-unreviewed-transition", not extra,
           "every fetch_update closure of the task module has a reviewed table (unreviewed: %s)" % extra, [s for o in extra for s in sites.get(o, [])])


RULES.append(("C13.o", "conditional task state transitions equal their reviewed tables", rule_state_updates))


def rule_waker_vtable(ctx):
    """The raw-waker vtable wires each slot to the function with that slot's reference discipline: clone adds one reference, wake
    (by value) turns the waker's own reference into a wake-up, wake_by_ref adds a wake-up and keeps the reference, drop releases one
    reference. A swapped slot or a wrong delta keeps every call in place and corrupts the reference count."""
    P = ctx.prog
    C = consts(P)
    if None in C.values():
        return ctx.missing("task state constants")
    n = 0
    for b in task_bodies(P):
        for s in b.calls(r"RawWakerVTable::new$"):
            n += 1
            fns = []
            for i in range(4):
                o = b.origins(s.args()[i], s)
                fns.append(P.body(next(iter(o))[1]) if len(o) == 1 and next(iter(o))[0] == "fn" else None)
            if None in fns:
                ctx.ob("waker-vtable|slots-are-functions", False, "the four vtable slots are functions of the task module", [s])
                continue
            cl, wv, wr, dr = fns

            def rmw(f, name):
                return [x for x in f.calls("^" + ATOM + name + "$") if atomics.receiver_field(f, x) == "state"]

            def wake_delta(f):
                ws = list(f.calls(lambda c: c == TASK + "Task::wake"))
                if len(ws) != 1:
                    return None
                return const_eval_set(f.origins(ws[0].args()[1], ws[0]))
            # clone: +REF_INC, hands out the same data pointer with this vtable
            a = rmw(cl, "fetch_add")
            ok = len(a) == 1 and const_eval_set(cl.origins(a[0].args()[1], a[0])) == C["REF_INC"] and not rmw(cl, "fetch_sub") and wake_delta(cl) is None
            rw = list(cl.calls(r"RawWaker::new$"))
            ok = ok and len(rw) == 1 and cl.origins(rw[0].args()[0], rw[0]) == frozenset([("arg", 1)])
            if ok:
                vo = cl.origins(rw[0].args()[1], rw[0])
                ok = bool(vo) and all(x[0] == "call" and P.body(x[2]) is b or (x[0] == "call" and x[2] == b.name) for x in vo)
            ctx.ob("waker-vtable|clone-slot-adds-one-reference", ok, "slot 0 adds REF_INC and returns a waker on the same task with the same vtable", [s] + a)
            ok = wake_delta(wv) == (C["WAKE_INC"] - C["REF_INC"])
            ctx.ob("waker-vtable|wake-slot-consumes-reference", ok, "slot 1 wakes with WAKE_INC - REF_INC (the waker's own reference is released by the same update)", [s])
            ok = wake_delta(wr) == C["WAKE_INC"] and not rmw(wr, "fetch_sub")
            ctx.ob("waker-vtable|wake-by-ref-slot-keeps-reference", ok, "slot 2 wakes with WAKE_INC and releases nothing", [s])
            d = rmw(dr, "fetch_sub")
            ok = len(d) == 1 and const_eval_set(dr.origins(d[0].args()[1], d[0])) == C["REF_INC"] and wake_delta(dr) is None and not rmw(dr, "fetch_add")
            ctx.ob("waker-vtable|drop-slot-releases-one-reference", ok, "slot 3 subtracts REF_INC and wakes nobody", [s] + d)
    ctx.ob("floor|waker-vtables", n == 1, "expected one raw-waker vtable in the task module (found %d)" % n)
    w = ctx.body(TASK + "Task::wake")
    if w is not None:
        a = [x for x in w.calls("^" + ATOM + "fetch_add$") if atomics.receiver_field(w, x) == "state"]
        ok = len(a) == 1 and w.origins(a[0].args()[1], a[0]) == frozenset([("arg", 2)]) and not w.conditions(a[0])
        ctx.ob("waker-vtable|wake-applies-given-delta", ok, "Task::wake adds exactly the delta it is given, unconditionally", a)


RULES.append(("C13.p", "raw-waker vtable slots and their reference / wake deltas", rule_waker_vtable))
