"""Must-pass-through rules (K3 in table form).

Dominance rules ("the guard comes before the effect") are blind to a change that *adds a way out*: a fast path, an early return, a
new special-case branch that leaves a function before the effect the property depends on has happened. Each entry below states, for
one function, an effect every normal path from the entry to a return must pass, together with the excuses the code has today (the
branch on which skipping the effect is the specified behaviour, e.g. `is_open == false` for a sink write). The check removes the
effect sites and the excused edges from the normal CFG and asks whether a return is still reachable; the witness path is reported.

An entry never mentions lines, locals or statement order beyond "passes through"; extracting the effect into a crate-local helper is
followed (an effect may be given as "a call to a function that itself must-passes the effect" by listing the helper as effect).
Coroutine bodies: `return` is the completion of the future, `yield` edges are ordinary edges, so "every path to return passes X"
reads "the future completes only after X".
"""
import re

from ..core import Site, TERM, Cond, norm, origin_proj_names
from . import common as K


# ------------------------------------------------------------------ excuse predicates over Cond
def call_is(pattern, truth):
    rx = re.compile(pattern)
    return lambda c: c.kind == "call" and rx.search(c.data[0] or "") is not None and c.data[1] is truth


def variant_is(names, from_call=None):
    names = set(names)
    rx = re.compile(from_call) if from_call else None

    def f(c):
        if c.kind != "variant" or c.data[2] or set(c.data[1]) != names:
            return False
        if rx is None:
            return True
        return bool(c.data[0]) and all(any(rx.search(x[2] or "") for x in K.root_calls(frozenset([o]))) for o in c.data[0])
    return f


def bool_from_call(pattern, truth):
    """a boolean produced by a call (e.g. an atomic load of `is_open`) tested for `truth` (also through `!`)."""
    rx = re.compile(pattern)

    def f(c):
        if c.kind == "call":
            return rx.search(c.data[0] or "") is not None and c.data[1] is truth
        if c.kind != "bool" or c.data[1] is not truth:
            return False
        return bool(c.data[0]) and all(any(rx.search(x[2] or "") for x in K.root_calls(frozenset([o]))) for o in c.data[0])
    return f


def cmp_fields(op, field):
    """a comparison `a.field op b.field` (both operands are projections ending in the field)."""
    def f(c):
        if c.kind != "cmp" or c.data[0] != op:
            return False
        return all(bool(side) and all(origin_proj_names(o)[1][-1:] == [("f", field)] for o in side) for side in (c.data[1], c.data[2]))
    return f


def len_is_zero():
    """`slice.len() == 0` in the shape slice patterns compile to: PtrMetadata(..) == 0, or a call to is_empty()."""
    def f(c):
        if c.kind == "call":
            return (c.data[0] or "").endswith("::is_empty") and c.data[1] is True
        if c.kind != "cmp" or c.data[0] != "==":
            return False
        a, b = c.data[1], c.data[2]
        def meta(x):
            return bool(x) and all(o[0] == "un" and o[1] == "PtrMetadata" or (o[0] == "call" and o[2].endswith("::len")) for o in x)
        def zero(x):
            return bool(x) and all(o[0] == "const" and o[1] == 0 for o in x)
        return (meta(a) and zero(b)) or (meta(b) and zero(a))
    return f


def cmp_eq_between(call_pattern, field):
    """`f(..) == x.field` (either order): e.g. the shared epoch just loaded equals the cached epoch."""
    rx = re.compile(call_pattern)

    def f(c):
        if c.kind != "cmp" or c.data[0] != "==":
            return False
        def is_call(x):
            return bool(x) and all(any(rx.search(t[2] or "") for t in K.root_calls(frozenset([o]))) for o in x)
        def is_field(x):
            return bool(x) and all(origin_proj_names(o)[1][-1:] == [("f", field)] for o in x)
        a, b = c.data[1], c.data[2]
        return (is_call(a) and is_field(b)) or (is_call(b) and is_field(a))
    return f


def any_of(*fs):
    return lambda c: any(f(c) for f in fs)


# ------------------------------------------------------------------ effect / excused-site selectors over a body
def calls(pattern):
    return lambda b: list(b.calls(pattern))


def err_results(b):
    """sites that make the function's result an Err (explicit Err(..) or `?` propagation): paths through them are excused when the
    effect is only required for success."""
    return [r for r in K.ret_assigns(b) if K.result_variant_of_ret(r) == "Err"]


def aggregates(adt, variant=None):
    return lambda b: list(b.aggregates(adt=adt, variant=variant))


def deref_assign_of_some(b):
    """`*guard = Some(..)` : assignment through a deref whose value is an Option::Some aggregate."""
    out = []
    for s in b.assigns():
        pp = s.node["p"]["p"]
        if pp and pp[-1] == "*" or (pp and "*" in pp):
            r = s.node["r"]
            if r["r"] == "agg" and r.get("variant") == "Some":
                out.append(s)
            elif r["r"] == "use":
                o = b.origins(r["o"], s)
                if o and all(x[0] == "agg" and x[4] == "Some" for x in o):
                    out.append(s)
    return out


# ------------------------------------------------------------------ the table
PQ = "util::priority_queue::PriorityQueue::"
IPQ = "util::indexed_priority_queue::IndexedPriorityQueue::"

ENTRIES = {
    # ---- sinks (C17)
    "buffer-write-pushes": dict(
        body="<ports::sink::event_buffer::EventBufferWriter as ports::sink::EventSinkWriter>::write",
        effect=calls(r"^std::collections::VecDeque::push_back$"),
        excuse=bool_from_call(r"atomic::Atomic\w*::load$", False),
        what="an open EventBuffer stores every written event (the only way past push_back is the is_open == false branch)"),
    "slot-write-stores": dict(
        body="<ports::sink::event_slot::EventSlotWriter as ports::sink::EventSinkWriter>::write",
        effect=deref_assign_of_some,
        excuse=any_of(bool_from_call(r"atomic::Atomic\w*::load$", False), variant_is({"Err"}, r"Mutex::try_lock$")),
        what="an open EventSlot stores every written event unless another writer holds the slot (try_lock WouldBlock)"),
    # ---- scheduler time cell (C15, C01)
    "synccell-write-stores-value": dict(
        body="util::sync_cell::SyncCell::write", effect=calls(r"TearableAtomic::tearable_store$"),
        what="SyncCell::write always stores the value"),
    "synccell-write-closes-window": dict(
        body="util::sync_cell::SyncCell::write", effect=calls(r"atomic::Atomic\w*::store$"), start=calls(r"TearableAtomic::tearable_store$"),
        what="after the value is stored the sequence count is made even again on every path (a writer that returns in between leaves "
             "every reader failing for ever)"),
    # ---- priority queues (C20)
    "pq-insert-pushes": dict(
        body=PQ + "insert", effect=calls(r"^std::collections::BinaryHeap::push$"), what="insert always pushes the item"),
    "ipq-insert-sifts": dict(
        body=IPQ + "insert", effect=calls(re.escape(IPQ) + r"sift_up$"),
        what="the keyed queue restores the heap order after every insertion (sift_up on every path)"),
    "ipq-pull-sifts": dict(
        body=IPQ + "pull", effect=calls(re.escape(IPQ) + r"sift_down$"), start=calls(r"^std::vec::Vec::pop$"),
        excuse=cmp_fields("==", "slab_idx"),
        what="after removing the top, the last item is sifted down unless it was the top itself (last.slab_idx == top.slab_idx)"),
    # ---- mailbox (C03, C12)
    "send-completes-after-wait": dict(
        body="channel::Sender::send::{closure#0}", effect=lambda b: [s for s in b.calls(r"^std::future::Future::poll$")],
        what="Sender::send completes only after polling the wait-for-space future (which pushes the message)"),
    "send-ok-notifies-receiver": dict(
        body="channel::Sender::send::{closure#0}", effect=calls(r"diatomic_waker\S*::notify$|WakeSource::notify$"),
        excused_sites=err_results,
        what="a successful send notifies the receiver on every path (only the Err(SendError) result skips it)"),
    "recv-runs-handler": dict(
        body="channel::Receiver::recv::{closure#0}",
        effect=lambda b: [s for s in b.calls(r"^std::future::Future::poll$") if "dyn std::future::Future" in (s.node.get("argtys") or [""])[0]],
        excused_sites=err_results,
        what="recv returns Ok only after the handler future of the popped message was polled (to completion: see C05.b)"),
    "recv-notifies-sender": dict(
        body="channel::Receiver::recv::{closure#0}", effect=calls(r"async_event::Event::notify_one$"), excused_sites=err_results,
        what="after a message was taken, a blocked sender is notified on every path"),
    # ---- ports (C03, C02, C14)
    "output-send-broadcasts": dict(
        body="ports::output::Output::send::{closure#0}", effect=calls(r"ports::output::broadcaster::EventBroadcaster::broadcast$"),
        what="Output::send hands every event to the broadcaster"),
    "requestor-send-broadcasts": dict(
        body="ports::output::Requestor::send::{closure#0}", effect=calls(r"ports::output::broadcaster::QueryBroadcaster::broadcast$"),
        what="Requestor::send hands every query to the broadcaster"),
    # ---- simulation entry points (C04, C16, C11)
    "process-event-runs": dict(
        body="simulation::Simulation::process_event", effect=calls(K.SIM_RUN), excused_sites=err_results,
        what="process_event returns Ok only after running the executor"),
    "process-query-runs": dict(
        body="simulation::Simulation::process_query", effect=calls(K.SIM_RUN), excused_sites=err_results,
        what="process_query returns Ok only after running the executor"),
    "process-runs": dict(
        body="simulation::Simulation::process", effect=calls(K.SIM_RUN), excused_sites=err_results,
        what="process returns Ok only after running the executor"),
    "process-spawns": dict(
        body="simulation::Simulation::process", effect=calls(r"Action::spawn_and_forget$"), excused_sites=err_results,
        what="process spawns the action on every successful path"),
    "init-runs": dict(
        body="simulation::sim_init::SimInit::init", effect=calls(K.SIM_RUN), excused_sites=err_results,
        what="SimInit::init returns the simulation only after running every model's init to quiescence"),
    "step-until-steps": dict(
        body="simulation::Simulation::step_until", effect=calls(r"Simulation::step_until_unchecked$"), excused_sites=err_results,
        what="step_until returns Ok only through step_until_unchecked"),
    # ---- sender family: the body that creates / polls the channel send (C03, C02, C14)
    "senders-create-channel-send": dict(
        bodies=r"^<ports::(output|source)::sender::\w+ as ports::(output|source)::sender::Sender>::send(_owned)?(::\{closure#\d+\})*$",
        effect=calls(r"^channel::Sender::send$"), only_if_present=True, floor=12,
        what="a sender body that forwards to the recipient's mailbox creates the channel send on every path (filtering happens outside, "
             "in Option::map)"),
    "senders-await-channel-send": dict(
        bodies=r"^<ports::(output|source)::sender::\w+ as ports::(output|source)::sender::Sender>::send(_owned)?(::\{closure#\d+\})*$",
        effect=lambda b: [s for s in b.calls(r"^std::future::Future::poll$") if (s.node.get("resolved_n") or "") == "channel::Sender::send::{closure#0}"],
        only_if_present=True, floor=9,
        what="a sender future that awaits the channel send completes only after polling it"),
    "sink-senders-write": dict(
        bodies=r"^<ports::output::sender::\w*EventSinkSender as ports::output::sender::Sender>::send(_owned)?(::\{closure#\d+\})*$",
        effect=calls(r"ports::sink::EventSinkWriter::write$"), only_if_present=True, floor=3,
        what="a sink sender writes the event on every path"),
    "direct-sends-await": dict(
        bodies=r"^simulation::(Simulation::process_event|Simulation::process_query|scheduler::process_event|scheduler::send_keyed_event)::\{closure#0\}$",
        effect=lambda b: [s for s in b.calls(r"^std::future::Future::poll$") if (s.node.get("resolved_n") or "") == "channel::Sender::send::{closure#0}"],
        excuse=call_is(r"ActionKey::is_cancelled$", True), floor=4,
        what="a directly sent event/query completes only after polling the channel send (a keyed event: unless its key is cancelled)"),
    # ---- broadcast coroutines
    "output-broadcast-polls": dict(
        bodies=r"^ports::output::broadcaster::(Event|Query)Broadcaster::broadcast::\{closure#0\}$",
        effect=calls(r"^std::future::Future::poll$"),
        excuse=any_of(len_is_zero(), variant_is({"None"}, r"Sender::send(_owned)?$")), floor=2,
        what="a broadcast completes only after polling a send future, unless there is no connection or the only connection filtered the message"),
    "source-broadcast-polls": dict(
        bodies=r"^ports::source::broadcaster::(Event|Query)Broadcaster::broadcast::\{closure#0\}$",
        effect=calls(r"^std::future::Future::poll$"),
        excuse=any_of(len_is_zero(), variant_is({"Empty"}), variant_is({"None"})), floor=2,
        what="a source broadcast completes only after polling a send future, unless there is no (accepting) connection"),
    "event-source-broadcasts": dict(
        bodies=r"^ports::source::EventSource::(event|keyed_event|periodic_event|keyed_periodic_event)(::\{closure#0\}::\{closure#0\})?$",
        effect=calls(r"ports::source::broadcaster::EventBroadcaster::broadcast$"), only_if_present=True, floor=4,
        what="an EventSource action broadcasts its event on every path"),
    # ---- scheduler queue helpers (C10, C09)
    "periodic-reinserted": dict(
        bodies_fn=lambda P: __import__("nx.rules.c10", fromlist=["x"]).pull_helpers(P), start=calls(r"scheduler::Action::next$"),
        effect=calls(r"PriorityQueue::insert$"), excuse=variant_is({"None"}, r"scheduler::Action::next$"),
        what="a pulled periodic action (next() is Some) is re-inserted on every path"),
    "cancelled-head-discarded": dict(
        bodies_fn=lambda P: [b for st in __import__("nx.rules.c01", fromlist=["x"]).stepping_fns(P) for b in P.family(st)
                             if any(True for _ in b.calls(r"scheduler::Action::is_cancelled$")) and any(True for _ in b.calls(r"PriorityQueue::peek$"))],
        start=calls(r"scheduler::Action::is_cancelled$"),
        effect=calls(r"PriorityQueue::pull$"), excuse=call_is(r"scheduler::Action::is_cancelled$", False),
        what="a cancelled head of the queue is pulled (discarded) on every path before the next peek"),
    # ---- executors (C04, C13)
    "st-spawn-enqueues": dict(
        bodies=r"^executor::st_executor::Executor::spawn(_and_forget)?$", effect=calls(r"^std::vec::Vec::push$"), floor=2,
        what="a spawned task is put on the run queue on every path"),
    "mt-spawn-enqueues": dict(
        bodies=r"^executor::mt_executor::Executor::spawn(_and_forget)?$", effect=calls(r"injector::Injector::insert_task$"), floor=2,
        what="a spawned task is put into the injector on every path"),
    "mt-run-returns-only-idle": dict(
        body="executor::mt_executor::Executor::run", only_via=call_is(r"PoolManager::pool_is_idle$", True), excused_sites=err_results,
        what="Executor::run (multi-threaded) returns Ok only on the branch where the pool was seen idle"),
    "exec-run-dispatches": dict(
        body="executor::Executor::run", effect=calls(r"^executor::(st_executor|mt_executor)::Executor::run$"),
        what="Executor::run always runs one of the two executors"),
    "st-run-runs-inner": dict(
        body="executor::st_executor::Executor::run", effect=calls(r"st_executor::ExecutorInner::run$|^std::thread::spawn$"),
        what="the single-threaded Executor::run always enters the run loop"),
    # ---- model registration (C16, C06)
    "add-model-spawns-loop": dict(
        body="simulation::add_model", effect=calls(r"executor::Executor::spawn_and_forget$"),
        what="add_model spawns the model's task on every path"),
    "add-model-registers": dict(
        body="simulation::add_model", effect=calls(r"^std::vec::Vec::push$"),
        what="add_model registers the model (name / observer) on every path"),
    "sim-init-add-model-delegates": dict(
        body="simulation::sim_init::SimInit::add_model", effect=calls(r"^simulation::add_model$"),
        what="SimInit::add_model always goes through simulation::add_model"),
    "add-submodel-delegates": dict(
        body="model::context::BuildContext::add_submodel", effect=calls(r"^simulation::add_model$"),
        what="BuildContext::add_submodel always goes through simulation::add_model"),
    # ---- connections (C14, C03)
    "connect-registers": dict(
        bodies=r"^ports::output::(Output|Requestor)::(\w*connect\w*)$", effect=calls(r"broadcaster::BroadcasterInner::add$|Broadcaster::add$"),
        only_if_present=True, floor=9,
        what="every connect method adds the sender to the broadcaster on every path"),
    "cached-write-bumps-epoch": dict(
        body="util::cached_rw_lock::CachedRwLock::write", effect=calls(r"atomic::Atomic\w*::store$"),
        what="taking the shared write lock always advances the epoch (else clones never refresh)"),
    # ---- drop (C19)
    "receiver-drop-closes": dict(
        body="<channel::Receiver as std::ops::Drop>::drop", effect=calls(r"channel::queue::Queue::close$"),
        what="dropping the receiver closes the mailbox on every path"),
    "receiver-drop-notifies": dict(
        body="<channel::Receiver as std::ops::Drop>::drop", effect=calls(r"async_event::Event::notify_all$"),
        what="dropping the receiver wakes every blocked sender on every path"),
    "mt-drop-joins": dict(
        body="<executor::mt_executor::Executor as std::ops::Drop>::drop", effect=calls(r"std::thread::JoinHandle::join$"),
        excuse=variant_is({"None"}, r"Iterator::next$|^std::vec::Vec::pop$"),
        what="dropping the multi-threaded executor joins its workers on every path (the loop over the drained handles ends only at None)"),
    "mt-drop-aborts": dict(
        body="<executor::mt_executor::Executor as std::ops::Drop>::drop", effect=calls(r"executor::Signal::set$"),
        what="dropping the multi-threaded executor raises the abort signal on every path"),
    # ---- failure reporting (C11)
    "port-send-throws": dict(
        bodies=r"^ports::output::(Output|Requestor|UniRequestor)::send::\{closure#0\}$", effect=calls(r"UnwrapOrThrow::unwrap_or_throw$|unwrap_or_throw$"),
        excuse=variant_is({"None"}, r"Sender::send(_owned)?$"),
        floor=3, what="a model-side send completes only through unwrap_or_throw (a SendError is thrown, never dropped), unless the only connection filtered the message"),
    "source-send-throws": dict(
        bodies=r"^ports::source::(EventSource::event::\{closure#0\}|EventSource::(keyed_event|periodic_event|keyed_periodic_event)::\{closure#0\}::\{closure#0\}|QuerySource::query::\{closure#0\})$",
        effect=calls(r"unwrap_or_throw$"), floor=5,
        what="an EventSource / QuerySource action completes only through unwrap_or_throw"),
    "worker-panic-registered": dict(
        body="executor::mt_executor::run_local_worker", start=calls(r"^std::panic::catch_unwind$"),
        effect=calls(r"PoolManager::register_panic$"), excuse=variant_is({"Ok"}, r"catch_unwind$"),
        what="a panic caught in a worker is registered with the pool manager on every path"),
    "worker-panic-wakes-executor": dict(
        body="executor::mt_executor::run_local_worker", start=calls(r"PoolManager::register_panic$"),
        effect=calls(r"parking::Unparker::unpark$"),
        what="after registering a panic the worker unparks the executor thread on every path"),
    "mt-run-checks-panic": dict(
        body="executor::mt_executor::Executor::run", effect=calls(r"PoolManager::take_panic$"),
        what="Executor::run (multi-threaded) inspects the registered panic before every return"),
    "st-run-reports-panic": dict(
        body="executor::st_executor::ExecutorInner::run", start=calls(r"ScopedLocalKey::set$|ScopedKey::set$"),
        effect=aggregates("executor::ExecutorError", "Panic"), excuse=variant_is({"Ok"}),
        what="a panic caught by the single-threaded run loop is returned as ExecutorError::Panic on every path"),
    # ---- task wake-ups (C13, C05)
    "wakers-wake": dict(
        bodies=r"^executor::task::Task::(wake_by_val|wake_by_ref)$", effect=calls(r"task::Task::wake$"), floor=2,
        what="every waker entry point performs the wake state update (no path returns without it)"),
    "wake-updates-state": dict(
        body="executor::task::Task::wake", effect=calls(r"Atomic\w*::fetch_add$"),
        what="Task::wake always adds its wake-up to the state word"),
    "slot-next-locks": dict(
        body="<ports::sink::event_slot::EventSlot as std::iter::Iterator>::next", effect=calls(r"Mutex::try_lock$"),
        what="reading an EventSlot always inspects the slot itself (no path returns None without looking)"),
    "buffer-next-pops": dict(
        body="<ports::sink::event_buffer::EventBuffer as std::iter::Iterator>::next", effect=calls(r"VecDeque::pop_front$"),
        what="reading an EventBuffer always pops the shared queue"),
    # ---- model task (C16, C05, C03)
    "model-task-inits": dict(
        body="simulation::add_model::{closure#0}",
        effect=lambda b: [s for s in b.calls(r"^std::future::Future::poll$") if "InitializedModel" in (s.node.get("argtys") or [""])[0]],
        what="the model task completes only after polling the model's init future"),
    "model-task-receives": dict(
        body="simulation::add_model::{closure#0}",
        effect=lambda b: [s for s in b.calls(r"^std::future::Future::poll$") if (s.node.get("resolved_n") or "") == "channel::Receiver::recv::{closure#0}"],
        excuse=call_is(r"executor::Signal::is_set$", True),
        what="after init the model task keeps receiving: it completes only after a recv was polled (or the abort signal is set)"),
    "model-task-ends-only-on-error-or-abort": dict(
        body="simulation::add_model::{closure#0}", only_via=any_of(call_is(r"executor::Signal::is_set$", True), call_is(r"Result::is_ok$", False)),
        what="the model task returns only when the abort signal is set or recv reported that the mailbox is closed"),
    # ---- cached connection list (C14, C03)
    "scratchpad-refreshes-when-behind": dict(
        body="util::cached_rw_lock::CachedRwLock::write_scratchpad", effect=calls(r"^std::sync::Mutex::lock$"),
        excuse=cmp_eq_between(r"atomic::Atomic\w*::load$", "epoch"),
        what="a port clone whose cached epoch differs from the shared one always takes the shared lock (and refreshes) before sending; the "
             "only way past the lock is `shared epoch == cached epoch`"),
    "scratchpad-copies-shared-value": dict(
        body="util::cached_rw_lock::CachedRwLock::write_scratchpad", start=calls(r"^std::sync::Mutex::lock$"),
        effect=calls(r"^std::clone::Clone::clone$"), excuse=variant_is({"Err"}, r"Mutex::lock$"),
        what="once the shared lock is taken the shared value is copied into the cache (except on a poisoned lock)"),
}


def _bodies_of(P, e):
    if "bodies_fn" in e:
        return list(e["bodies_fn"](P))
    if "body" in e:
        b = P.body(e["body"])
        return [b] if b is not None else []
    rx = re.compile(e["bodies"])
    return [b for b in P.all_bodies() if rx.search(b.name) and "::tests" not in b.name]


def _check_one(ctx, eid, e, b, keyed):
    eff = e["effect"](b) if e.get("effect") else []
    if not eff and not e.get("only_via"):
        if e.get("only_if_present"):
            return False
        ctx.missing("must-pass %s: effect site in %s" % (eid, b.name))
        return True
    excused = e["excused_sites"](b) if e.get("excused_sites") else []
    ex = e.get("excuse") or e.get("only_via")
    cache = {}

    def skip(x, y):
        if ex is None:
            return False
        k = (x, y)
        if k not in cache:
            try:
                cache[k] = bool(ex(Cond(b, x, y)))
            except Exception:
                cache[k] = False
        return cache[k]

    starts = e["start"](b) if e.get("start") else [None]
    if e.get("start") and not starts:
        if e.get("only_if_present"):
            return False
        ctx.missing("must-pass %s: start site in %s" % (eid, b.name))
        return True
    bad = None
    for st in starts:
        p = b.escape_path(st, avoiding=eff + excused, skip_edge=skip)
        if p is not None:
            bad = p
            break
    msg = e["what"]
    sites = list(eff[:4]) or [b.name + " at " + b.file]
    if bad is not None:
        msg += " -- escape path through blocks " + "->".join("bb%d" % x for x in bad[:14])
        for x in reversed(bad):
            if b.blocks[x]["term"]["t"] in ("switch", "call"):
                sites = [Site(b, x, TERM)] + sites
                break
    ctx.ob("must-pass|%s%s" % (eid, ("|" + b.name) if keyed else ""), bad is None, msg, sites)
    return True


def check(ctx, ids):
    P = ctx.prog
    for eid in ids:
        e = ENTRIES[eid]
        bs = _bodies_of(P, e)
        if not bs:
            if e.get("may_be_absent"):
                ctx.ob("must-pass|%s|not-compiled" % eid, True, "not part of this configuration", [])
            else:
                ctx.missing("must-pass %s: body %s" % (eid, e.get("body") or e.get("bodies")))
            continue
        n = 0
        for b in bs:
            if _check_one(ctx, eid, e, b, keyed="bodies" in e):
                n += 1
        if "bodies" in e:
            ctx.ob("must-pass|%s|floor" % eid, n >= e.get("floor", 1),
                   "family `%s`: expected >= %d members with the effect (found %d)" % (eid, e.get("floor", 1), n), [])


# ------------------------------------------------------------------ branch-commit rule
def closest_branch_edge(b, site):
    """(x, y): the closest switch edge that dominates the site (x's terminator is a switch, y is the one successor of x on the
    way to the site); None if the site is reached unconditionally."""
    cur = site.b
    idom = b.idom
    seen = set()
    while cur is not None and cur not in seen:
        seen.add(cur)
        d = idom.get(cur)
        if d is None or d == cur:
            return None
        t = b.blocks[d]["term"]
        if t["t"] == "switch":
            ys = [y for y in b.succ[d] if y == cur or b.block_dominates(y, site.b)]
            if len(ys) == 1:
                return (d, ys[0])
        cur = d
    return None


def check_commit(ctx, cid, bodies_rx, effect_rx, what, floor=1):
    """For every effect site: once control is on the innermost branch that leads to the effect, every path to a return performs an
    effect of that kind (no way out between the decision and the effect)."""
    P = ctx.prog
    rx = re.compile(bodies_rx)
    n = 0
    for b in P.all_bodies():
        if not rx.search(b.name) or "::tests" in b.name:
            continue
        eff_all = list(b.calls(effect_rx))
        for e in eff_all:
            eff = [x for x in eff_all if x.callee == e.callee]
            edge = closest_branch_edge(b, e)
            n += 1
            if edge is None:
                p = b.escape_path(None, avoiding=eff)
                where = "function entry"
            else:
                p = b.escape_path(Site(b, edge[1], -1), avoiding=eff)
                where = "the branch bb%d->bb%d" % edge
            msg = what + " (%s, from %s)" % (b.name, where)
            if p is not None:
                msg += " -- escape path through blocks " + "->".join("bb%d" % x for x in p[:14])
            ctx.ob("commit|%s|%s|%s" % (cid, b.name, K_last(e.callee)), p is None, msg, [e])
    ctx.ob("commit|%s|floor" % cid, n >= floor, "expected >= %d effect sites (found %d)" % (floor, n), [])


def K_last(c):
    return (c or "?").rsplit("::", 1)[-1]


# effect groups for the branch-commit rule: name -> (bodies regex, effect regex, description)
COMMIT_GROUPS = {
    "task-release": (r"^executor::task", r"RunOnDrop::new$|UnsafeCell::with_mut$|^std::alloc::dealloc$|ManuallyDrop::drop$",
                     "task memory / future / output release: once the state test selected the releasing branch, the release happens"),
    "task-wake": (r"^executor::task", r"task::Task::wake$|^std::ops::Fn::call$|Atomic\w*::fetch_(add|sub|and|or|update)$|Atomic\w*::compare_exchange\w*$",
                  "task wake-up / state transitions: every waker entry point performs its state update and schedules when it must"),
    "queues": (r"^util::(indexed_)?priority_queue::", r"BinaryHeap::(push|pop)$|Vec::(push|pop)$|^std::mem::replace$|sift_(up|down)$",
               "priority-queue structural updates: once an operation has decided to insert / remove, the heap and slab updates all happen"),
    "ports": (r"^ports::|^<ports::",
              r"^channel::Sender::send$|^std::future::Future::poll$|EventSinkWriter::write$|Broadcaster::broadcast$|RecycledFuture::new$|"
              r"BroadcastFuture::new$|BroadcasterInner::(futures|add)$|Sender::send(_owned)?$|CachedRwLock::(write|write_scratchpad)$|"
              r"multishot::\w+::(send|recv)$|oneshot::\w+::send$|^std::vec::Vec::push$",
              "message delivery through ports: sender creation, fan-out, awaiting, reply hand-over, connection registration"),
    "lockfree": (r"^channel::queue::|^util::(slot|task_set|sync_cell|cached_rw_lock)::|^executor::mt_executor::(pool_manager|injector)::",
                 r"Atomic\w*::(store|compare_exchange\w*|fetch_or|fetch_and|fetch_add|fetch_sub|swap)$|UnsafeCell::with(_mut)?$|^std::mem::replace$",
                 "lock-free protocols (mailbox queue, slot, task set, seqlock, cached lock, pool manager, injector): every protocol step that a branch commits to is performed"),
    "executor-drop": (r"^<executor::|^executor::", r"JoinHandle::join$|CancelToken::cancel$|Signal::set$|Slab::drain$|Vec::drain$",
                      "executor shutdown steps"),
    "mailbox-signals": (r"^channel::|^<channel::", r"notify(_one|_all)?$|channel::queue::Queue::(push|pop|close)$",
                        "mailbox operations and the wake-ups that follow them"),
    "pool": (r"^executor::|^<executor::", r"PoolManager::\w+$|Injector::\w+$|Unparker::unpark$|schedule_task$|Runnable::run$|Vec::push$|Vec::pop$",
             "worker pool bookkeeping and task hand-over"),
    "sched-queue": (r"^simulation::|^<simulation::", r"PriorityQueue::(insert|pull)$|SyncCell::write$|Simulation::run$|Clock::synchronize$|spawn_and_forget$|Executor::run$",
                    "scheduler queue, time cell, clock and executor hand-over in the simulation front end"),
    "time-cell": (r"^util::sync_cell::", r"tearable_store$|Atomic\w*::store$|^std::sync::atomic::fence$", "seqlock write protocol"),
    "sinks": (r"^<ports::sink::|^ports::sink::|^<ports::output::sender::\w*EventSink", r"EventSinkWriter::write$|VecDeque::(push_back|pop_front|drain)$|Option::take$|^std::mem::take$|Mutex::(try_lock|lock)$",
              "sink writes"),
    "throw": (r"^ports::|^<ports::|^executor::mt_executor::run_local_worker", r"unwrap_or_throw$|PoolManager::register_panic$", "error reporting"),
    "registration": (r"^simulation::add_model$|^simulation::sim_init::|^model::context::BuildContext", r"spawn_and_forget$|Vec::push$|^simulation::add_model$",
                     "model registration"),
}
# (function, effect) pairs where a way out between the decision and the effect is the specified behaviour; each is decided by a
# dedicated clause
COMMIT_EXCEPTIONS = {
    ("simulation::Simulation::step_to_next_bounded", "run"): "the OutOfSync failure returns before run (C18.a out-of-sync-skips-run / synchronised-time-run)",
    ("simulation::Simulation::step_until_unchecked", "write"): "a newly scheduled action makes the final jump `continue` instead (C01.g)",
    ("simulation::Simulation::step_until_unchecked", "synchronize"): "same branch as the write (C01.g, C18.b written-target-synchronised)",
}


def commit_group(ctx, name, floor=1, only=None):
    """`only`: regex on the function name - the part of the group that the calling property's clauses rest on (a property does not
    report a change in a module it has nothing to do with)."""
    bodies_rx, effect_rx, what = COMMIT_GROUPS[name]
    P = ctx.prog
    rx = re.compile(bodies_rx)
    orx = re.compile(only) if only else None
    n = 0
    for b in P.all_bodies():
        if not rx.search(b.name) or "::tests" in b.name:
            continue
        if orx is not None and not orx.search(b.name):
            continue
        eff_all = list(b.calls(effect_rx))
        for e in eff_all:
            key = (b.name, K_last(e.callee))
            n += 1
            if key in COMMIT_EXCEPTIONS:
                continue
            eff = [x for x in eff_all if x.callee == e.callee]
            edge = closest_branch_edge(b, e)
            if edge is None:
                p = b.escape_path(None, avoiding=eff)
                where = "function entry"
            else:
                p = b.escape_path(Site(b, edge[1], -1), avoiding=eff)
                where = "the branch bb%d->bb%d" % edge
            msg = "%s: once control is on the branch that leads to %s, every path to a return performs it (%s, from %s)" % (what, K_last(e.callee), b.name, where)
            if p is not None:
                msg += " -- escape path through blocks " + "->".join("bb%d" % x for x in p[:14])
            ctx.ob("commit|%s|%s|%s" % (name, b.name, K_last(e.callee)), p is None, msg, [e])
    if n < floor:
        ctx.missing("commit group %s: %d effect sites (expected >= %d)" % (name, n, floor))
    decision_census(ctx, name, only)


# ------------------------------------------------------------------ decision-input census
# The branch-commit rule cannot see an exit that is itself a *new* decision placed in front of an effect (`if c { return }` becomes
# the closest dominating branch). The census closes that: for every effect site of the commit groups, the set of inputs that the
# conditions dominating it test (callees whose result is tested, argument / captured-field paths) was recorded from the unchanged
# tree (decision_inputs.json, generated by tools/gen_decision_inputs.py and read through once); an effect that today is guarded by
# an input outside the recorded set has become conditional on something new, i.e. in some state it is now skipped.
# Restyling a test on the same inputs (is_empty vs len, if-let vs match, negation) does not change the set.
import json as _json
import os as _os

_DI_PATH = _os.path.join(_os.path.dirname(_os.path.abspath(__file__)), "decision_inputs.json")
_DI = None


def _roots_of_origins(os_):
    from ..core import origin_calls
    out = set()
    for o in os_:
        rt, names = origin_proj_names(o)
        for c in origin_calls(o):
            out.add("call:" + c[2])
        fields = [n[1] for n in names if n[0] == "f" and not n[1].isdigit()]
        if rt[0] == "arg":
            out.add("arg%d%s" % (rt[1], ("." + ".".join(fields)) if fields else ""))
        elif rt[0] == "env":
            out.add("env" + (("." + ".".join(fields)) if fields else ""))
        elif rt[0] == "static":
            out.add("static:" + str(rt[1]))
    return out


def cond_inputs(c):
    out = set()
    if c.kind == "call":
        out.add("call:" + (c.data[0] or "?"))
        try:
            s = c.data[2]
            if s.args():
                out |= _roots_of_origins(s.body.origins(s.args()[0], s))
        except Exception:
            pass
    elif c.kind == "cmp":
        out |= _roots_of_origins(c.data[1]) | _roots_of_origins(c.data[2])
    elif c.kind in ("variant", "bool", "int"):
        out |= _roots_of_origins(c.data[0])
    else:
        out.add("unknown")
    return out


def decision_blocks(b, effects):
    """Switch blocks at which it is decided whether one of `effects` (sites of one callee in body b) happens: reachable from the
    entry, able to reach an effect, and able to reach a return without passing any of them. Covers short-circuit conditions
    (`if a && b { return }`), where no single edge dominates the effect."""
    eff_blocks = set(e.b for e in effects)
    # blocks that can reach an effect (backwards)
    can_eff = set(eff_blocks)
    stack = list(eff_blocks)
    while stack:
        x = stack.pop()
        for p in b.pred[x]:
            if p in b.live_blocks and p not in can_eff:
                can_eff.add(p)
                stack.append(p)
    # blocks that can reach a return without passing an effect (backwards from returns, not crossing effect blocks)
    can_skip = set()
    stack = [r for r in b.return_blocks() if r not in eff_blocks]
    can_skip.update(stack)
    while stack:
        x = stack.pop()
        for p in b.pred[x]:
            if p in b.live_blocks and p not in can_skip and p not in eff_blocks:
                can_skip.add(p)
                stack.append(p)
    reach = set(b.reachable(0)) | {0}
    # blocks from which some return is reachable at all (a successor outside this set diverges: panic / abort / unreachable)
    can_ret = set(b.return_blocks())
    stack = list(can_ret)
    while stack:
        x = stack.pop()
        for p in b.pred[x]:
            if p in b.live_blocks and p not in can_ret:
                can_ret.add(p)
                stack.append(p)
    out = []
    for d in sorted(can_eff & can_skip & reach):
        if b.blocks[d]["term"]["t"] == "switch":
            # an assertion (debug_assert!, bounds check, unwrap) has one continuing successor; it decides nothing about the effect
            ys = [y for y in b.succ[d] if y in can_ret]
            if len(set(ys)) >= 2 and any(y in can_eff or y in eff_blocks for y in ys) and any(y in can_skip for y in ys):
                # a diamond whose arms rejoin before any effect or return (`if log_enabled { log(..) }`) decides nothing either:
                # take the immediate post-dominator m of d; if no effect block and no return lies between d and m, skip d
                if b._pdom is None:
                    b._compute_pdom()
                m = b._pdom.get(d, -1)
                if m != -1:
                    region = set()
                    stack = [y for y in b.succ[d] if y != m]
                    while stack:
                        x = stack.pop()
                        if x in region or x == m:
                            continue
                        region.add(x)
                        stack.extend(z for z in b.succ[x] if z != m)
                    if not (region & eff_blocks) and not any(b.blocks[x]["term"]["t"] == "return" for x in region) and d not in region:
                        continue
                out.append(d)
    return out


def decision_inputs_today(P, group):
    bodies_rx, effect_rx, _ = COMMIT_GROUPS[group]
    rx = re.compile(bodies_rx)
    res = {}
    sites = {}
    for b in P.all_bodies():
        if not rx.search(b.name) or "::tests" in b.name:
            continue
        by_callee = {}
        for e in b.calls(effect_rx):
            by_callee.setdefault(e.callee, []).append(e)
        for callee, es in by_callee.items():
            k = "%s|%s" % (b.name, K_last(callee))
            ins = res.setdefault(k, set())
            sites.setdefault(k, []).extend(es)
            for d in decision_blocks(b, es):
                for y in b.succ[d]:
                    try:
                        ins |= cond_inputs(Cond(b, d, y))
                    except Exception:
                        ins.add("unknown")
    return res, sites


# equivalents accepted by the census: a `while let Some(x) = vec.pop()` loop empties a vector like a `drain(..)` loop does
GROUP_EQUIV = {
    "executor-drop": {"effect": (r"^std::vec::Vec::pop$", "drain"),
                      "input": {"call:std::vec::Vec::pop": "call:std::iter::Iterator::next"}},
}


def decision_census(ctx, group, only=None):
    global _DI
    if _DI is None:
        try:
            _DI = _json.load(open(_DI_PATH))
        except Exception:
            _DI = {}
    base = _DI.get(group)
    if base is None:
        ctx.missing("decision-input baseline for group " + group)
        return
    today, sites = decision_inputs_today(ctx.prog, group)
    eq = GROUP_EQUIV.get(group)
    if eq:
        # accepted equivalents of an enumerated effect / decision input (only for the groups listed in GROUP_EQUIV)
        rx_e, as_name = eq["effect"]
        brx = re.compile(COMMIT_GROUPS[group][0])
        for b in ctx.prog.all_bodies():
            k = "%s|%s" % (b.name, as_name)
            if k in base and brx.search(b.name):
                extra = [s for s in b.calls(rx_e) if b.in_loop(s)]
                if extra:
                    sites.setdefault(k, []).extend(extra)
                    today.setdefault(k, set())
        for k in list(today):
            today[k] = set(eq["input"].get(x, x) for x in today[k])
    cnts_all = (_DI.get("__counts__") or {}).get(group, {})
    if only:
        orx = re.compile(only)
        base = {k: v for k, v in base.items() if orx.search(k.split("|")[0])}
        today = {k: v for k, v in today.items() if orx.search(k.split("|")[0])}
        cnts_all = {k: v for k, v in cnts_all.items() if orx.search(k.split("|")[0])}
    n = 0
    for k, ins in sorted(today.items()):
        if k not in base:
            continue  # a function / effect that did not exist when the baseline was taken: nothing to compare with
        n += 1
        new = sorted(ins - set(base[k]))
        ctx.ob("decision-inputs|%s|%s" % (group, k), not new,
               "the decision to perform `%s` depends only on the inputs it depended on (%s)%s" % (
                   k.split("|")[1], ", ".join(base[k]) or "none: unconditional",
                   "; NEW input(s): " + ", ".join(new) if new else ""), sites[k][:3])
    # fewer sites of an effect in a function than when the baseline was taken (one of two polls / pushes / notifications removed)
    cnts = cnts_all
    for k, want in sorted(cnts.items()):
        if k in today and len(sites[k]) < want:
            ctx.ob("effect-sites-not-fewer|%s|%s" % (group, k), False,
                   "`%s` had %d call site(s) of `%s` when the baseline was taken and has %d now: an effect site was removed" % (
                       k.split("|")[0], want, k.split("|")[1], len(sites[k])), sites[k][:3])
    # an effect that a known function performed when the baseline was taken and no longer performs at all
    names = set(b.name for b in ctx.prog.all_bodies())
    for k in sorted(base):
        if k in today:
            continue
        fn = k.split("|")[0]
        if fn in names:
            ctx.ob("effect-still-performed|%s|%s" % (group, k), False,
                   "`%s` no longer calls `%s` (recorded in the decision-input baseline: the effect was performed there, decided by: %s)" % (
                       fn, k.split("|")[1], ", ".join(base[k]) or "nothing, unconditionally"), [fn])
    if n < max(1, len(base) // 2):
        ctx.missing("decision-input census %s: only %d of %d recorded effect sites found" % (group, n, len(base)))
