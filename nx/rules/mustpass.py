"""Must-pass-through rules (K3 in table form).

Dominance rules ("the guard comes before the effect") are blind to a change that *adds a way out*: a fast path, an early return, a
new special-case branch that leaves a function before the effect the property depends on has happened. Each entry below states, for
one function, an effect every normal path from the entry to a return must pass, together with the excuses the code has today (the
branch on which skipping the effect is the specified behaviour, e.g. `is_open == false` for a sink write). The check removes the
effect sites and the excused edges from the normal CFG and asks whether a return is still reachable; the witness path is reported.

An entry never mentions lines, locals or statement order beyond "passes through"; extracting the effect into a crate-local helper is
followed (an effect may be given as "a call to a function that itself must-passes the effect" by listing the helper as effect).
Coroutine bodies: `return` is the completion of the future, `yield` edges are ordinary edges, so "every path to return passes X"
reads "the future completes only after X".
"""
import re

from ..core import Site, TERM, Cond, norm, origin_proj_names
from . import common as K


# ------------------------------------------------------------------ excuse predicates over Cond
def call_is(pattern, truth):
    rx = re.compile(pattern)
    return lambda c: c.kind == "call" and rx.search(c.data[0] or "") is not None and c.data[1] is truth


def variant_is(names, from_call=None):
    names = set(names)
    rx = re.compile(from_call) if from_call else None

    def f(c):
        if c.kind != "variant" or c.data[2] or set(c.data[1]) != names:
            return False
        if rx is None:
            return True
        return bool(c.data[0]) and all(any(rx.search(x[2] or "") for x in K.root_calls(frozenset([o]))) for o in c.data[0])
    return f


def bool_from_call(pattern, truth):
    """a boolean produced by a call (e.g. an atomic load of `is_open`) tested for `truth` (also through `!`)."""
    rx = re.compile(pattern)

    def f(c):
        if c.kind == "call":
            return rx.search(c.data[0] or "") is not None and c.data[1] is truth
        if c.kind != "bool" or c.data[1] is not truth:
            return False
        return bool(c.data[0]) and all(any(rx.search(x[2] or "") for x in K.root_calls(frozenset([o]))) for o in c.data[0])
    return f


def cmp_fields(op, field):
    """a comparison `a.field op b.field` (both operands are projections ending in the field)."""
    def f(c):
        if c.kind != "cmp" or c.data[0] != op:
            return False
        return all(bool(side) and all(origin_proj_names(o)[1][-1:] == [("f", field)] for o in side) for side in (c.data[1], c.data[2]))
    return f


def any_of(*fs):
    return lambda c: any(f(c) for f in fs)


# ------------------------------------------------------------------ effect / excused-site selectors over a body
def calls(pattern):
    return lambda b: list(b.calls(pattern))


def err_results(b):
    """sites that make the function's result an Err (explicit Err(..) or `?` propagation): paths through them are excused when the
    effect is only required for success."""
    return [r for r in K.ret_assigns(b) if K.result_variant_of_ret(r) == "Err"]


def aggregates(adt, variant=None):
    return lambda b: list(b.aggregates(adt=adt, variant=variant))


def deref_assign_of_some(b):
    """`*guard = Some(..)` : assignment through a deref whose value is an Option::Some aggregate."""
    out = []
    for s in b.assigns():
        pp = s.node["p"]["p"]
        if pp and pp[-1] == "*" or (pp and "*" in pp):
            r = s.node["r"]
            if r["r"] == "agg" and r.get("variant") == "Some":
                out.append(s)
            elif r["r"] == "use":
                o = b.origins(r["o"], s)
                if o and all(x[0] == "agg" and x[4] == "Some" for x in o):
                    out.append(s)
    return out


# ------------------------------------------------------------------ the table
PQ = "util::priority_queue::PriorityQueue::"
IPQ = "util::indexed_priority_queue::IndexedPriorityQueue::"

ENTRIES = {
    # ---- sinks (C17)
    "buffer-write-pushes": dict(
        body="<ports::sink::event_buffer::EventBufferWriter as ports::sink::EventSinkWriter>::write",
        effect=calls(r"^std::collections::VecDeque::push_back$"),
        excuse=bool_from_call(r"atomic::Atomic\w*::load$", False),
        what="an open EventBuffer stores every written event (the only way past push_back is the is_open == false branch)"),
    "slot-write-stores": dict(
        body="<ports::sink::event_slot::EventSlotWriter as ports::sink::EventSinkWriter>::write",
        effect=deref_assign_of_some,
        excuse=any_of(bool_from_call(r"atomic::Atomic\w*::load$", False), variant_is({"Err"}, r"Mutex::try_lock$")),
        what="an open EventSlot stores every written event unless another writer holds the slot (try_lock WouldBlock)"),
    # ---- scheduler time cell (C15, C01)
    "synccell-write-stores-value": dict(
        body="util::sync_cell::SyncCell::write", effect=calls(r"TearableAtomic::tearable_store$"),
        what="SyncCell::write always stores the value"),
    "synccell-write-closes-window": dict(
        body="util::sync_cell::SyncCell::write", effect=calls(r"atomic::Atomic\w*::store$"), start=calls(r"TearableAtomic::tearable_store$"),
        what="after the value is stored the sequence count is made even again on every path (a writer that returns in between leaves "
             "every reader failing for ever)"),
    # ---- priority queues (C20)
    "pq-insert-pushes": dict(
        body=PQ + "insert", effect=calls(r"^std::collections::BinaryHeap::push$"), what="insert always pushes the item"),
    "ipq-insert-sifts": dict(
        body=IPQ + "insert", effect=calls(re.escape(IPQ) + r"sift_up$"),
        what="the keyed queue restores the heap order after every insertion (sift_up on every path)"),
    "ipq-pull-sifts": dict(
        body=IPQ + "pull", effect=calls(re.escape(IPQ) + r"sift_down$"), start=calls(r"^std::vec::Vec::pop$"),
        excuse=cmp_fields("==", "slab_idx"),
        what="after removing the top, the last item is sifted down unless it was the top itself (last.slab_idx == top.slab_idx)"),
    # ---- mailbox (C03, C12)
    "send-completes-after-wait": dict(
        body="channel::Sender::send::{closure#0}", effect=lambda b: [s for s in b.calls(r"^std::future::Future::poll$")],
        what="Sender::send completes only after polling the wait-for-space future (which pushes the message)"),
    "send-ok-notifies-receiver": dict(
        body="channel::Sender::send::{closure#0}", effect=calls(r"diatomic_waker\S*::notify$|WakeSource::notify$"),
        excused_sites=err_results,
        what="a successful send notifies the receiver on every path (only the Err(SendError) result skips it)"),
    "recv-runs-handler": dict(
        body="channel::Receiver::recv::{closure#0}",
        effect=lambda b: [s for s in b.calls(r"^std::future::Future::poll$") if "dyn std::future::Future" in (s.node.get("argtys") or [""])[0]],
        excused_sites=err_results,
        what="recv returns Ok only after the handler future of the popped message was polled (to completion: see C05.b)"),
    "recv-notifies-sender": dict(
        body="channel::Receiver::recv::{closure#0}", effect=calls(r"async_event::Event::notify_one$"), excused_sites=err_results,
        what="after a message was taken, a blocked sender is notified on every path"),
    # ---- ports (C03, C02, C14)
    "output-send-broadcasts": dict(
        body="ports::output::Output::send::{closure#0}", effect=calls(r"ports::output::broadcaster::EventBroadcaster::broadcast$"),
        what="Output::send hands every event to the broadcaster"),
    "requestor-send-broadcasts": dict(
        body="ports::output::Requestor::send::{closure#0}", effect=calls(r"ports::output::broadcaster::QueryBroadcaster::broadcast$"),
        what="Requestor::send hands every query to the broadcaster"),
    # ---- simulation entry points (C04, C16, C11)
    "process-event-runs": dict(
        body="simulation::Simulation::process_event", effect=calls(K.SIM_RUN), excused_sites=err_results,
        what="process_event returns Ok only after running the executor"),
    "process-query-runs": dict(
        body="simulation::Simulation::process_query", effect=calls(K.SIM_RUN), excused_sites=err_results,
        what="process_query returns Ok only after running the executor"),
    "process-runs": dict(
        body="simulation::Simulation::process", effect=calls(K.SIM_RUN), excused_sites=err_results,
        what="process returns Ok only after running the executor"),
    "process-spawns": dict(
        body="simulation::Simulation::process", effect=calls(r"Action::spawn_and_forget$"), excused_sites=err_results,
        what="process spawns the action on every successful path"),
    "init-runs": dict(
        body="simulation::sim_init::SimInit::init", effect=calls(K.SIM_RUN), excused_sites=err_results,
        what="SimInit::init returns the simulation only after running every model's init to quiescence"),
    "step-until-steps": dict(
        body="simulation::Simulation::step_until", effect=calls(r"Simulation::step_until_unchecked$"), excused_sites=err_results,
        what="step_until returns Ok only through step_until_unchecked"),
}


def check(ctx, ids):
    P = ctx.prog
    for eid in ids:
        e = ENTRIES[eid]
        b = P.body(e["body"])
        if b is None:
            ctx.missing("must-pass %s: body %s" % (eid, e["body"]))
            continue
        eff = e["effect"](b)
        if not eff:
            ctx.missing("must-pass %s: effect site in %s" % (eid, b.name))
            continue
        excused = e["excused_sites"](b) if e.get("excused_sites") else []
        ex = e.get("excuse")
        cache = {}

        def skip(x, y, ex=ex, b=b, cache=cache):
            if ex is None:
                return False
            k = (x, y)
            if k not in cache:
                try:
                    cache[k] = bool(ex(Cond(b, x, y)))
                except Exception:
                    cache[k] = False
            return cache[k]

        starts = e["start"](b) if e.get("start") else [None]
        if e.get("start") and not starts:
            ctx.missing("must-pass %s: start site in %s" % (eid, b.name))
            continue
        bad = None
        for st in starts:
            p = b.escape_path(st, avoiding=eff + excused, skip_edge=skip)
            if p is not None:
                bad = p
                break
        msg = e["what"]
        sites = list(eff[:4])
        if bad is not None:
            msg += " -- escape path through blocks " + "->".join("bb%d" % x for x in bad[:14])
            # name the last branching block of the escape as the offending site
            for x in reversed(bad):
                if b.blocks[x]["term"]["t"] in ("switch", "call"):
                    sites = [Site(b, x, TERM)] + sites
                    break
        ctx.ob("must-pass|%s" % eid, bad is None, msg, sites)
