"""C15 Simulation time reads are never torn and never go backwards — structural clauses a..c."""
from ..core import Site, TERM, norm, origin_calls, origin_proj_names, last_seg, Cond, origin_contains
from . import common as K
from .. import atomics
from ..masks import const_eval_set, mask_cmp

EXPLANATION = (
    "Decides the seqlock protocol shape of SyncCell on all paths: (a) write: load seq, store seq+1 (odd), Release fence, "
    "tearable_store(value), Release store of seq+2 (even), in this dominance order, unconditionally, both increments derived "
    "from the same load; try_read: Acquire load of the sequence, return Err if odd, tearable_load, Acquire fence, re-load, "
    "Ok(value) only on the `new_seq == seq` branch with value from that tearable_load, Err otherwise; with the ordering "
    "floors of the fences/loads/stores; the tearable halves are separate atomics each fully loaded/stored once; (b) "
    "tearable_load is only called from SyncCell::read (writer side, same thread) and try_read; SyncCellReader::read returns "
    "only an Ok of try_read (retry loop); GlobalScheduler::time uses the reader's read(); (c) SyncCell is !Sync, !Clone "
    "(single writer), readers are Clone + Send. NOT decided: the memory-model argument itself (Boehm 2012), i.e. that this "
    "shape excludes torn values on every interleaving, and monotonicity across different atomics."
)
TRUSTED = K.TRUSTED

SC = "util::sync_cell::"
ATOM = "std::sync::atomic::Atomic::"


def _seq_sites(b, op):
    return [s for s in b.calls("^" + ATOM + op + "$") if atomics.receiver_field(b, s) == "sequence"]


def rule_a(ctx):
    P = ctx.prog
    K.check_floors(ctx, "C15")
    w = ctx.body(SC + "SyncCell::write")
    r = ctx.body(SC + "SyncCellReader::try_read")
    if not w or not r:
        return
    # ---- writer
    loads = _seq_sites(w, "load")
    stores = sorted(_seq_sites(w, "store"), key=lambda s: w.rpo_index.get(s.b, 0))
    fences = list(w.calls("^std::sync::atomic::fence$"))
    ts = list(w.calls(r"TearableAtomic::tearable_store$"))
    ok = len(loads) == 1 and len(stores) == 2 and len(fences) == 1 and len(ts) == 1
    ctx.ob("write|sites", ok, "write = one sequence load, two sequence stores, one fence, one tearable store", loads + stores + fences + ts)
    if ok:
        ld, s1, s2, f, t = loads[0], stores[0], stores[1], fences[0], ts[0]
        order = [ld, s1, f, t, s2]
        ok = all(w.dominates(a, b_) for a, b_ in zip(order, order[1:])) and all(w.postdominates(b_, a) for a, b_ in zip(order, order[1:]))
        ctx.ob("write|order", ok, "odd store < Release fence < tearable store < even Release store, on every path", order)
        ctx.ob("write|unconditional", not any(w.conditions(x) for x in order) and not any(w.in_loop(x) for x in order),
               "the write protocol has no conditional or repeated step", order)

        def delta(o, at_site, depth=0):
            """o as `loaded sequence + k` (wrapping): k, or None."""
            from ..masks import const_eval
            if depth > 6 or not isinstance(o, tuple) or not o:
                return None
            if o == ("call", ld.b, ld.callee):
                return 0
            if o[0] == "call" and o[2].endswith("wrapping_add"):
                a = Site(w, o[1], TERM)
                base = w.origins(a.args()[0], a)
                k = const_eval_set(w.origins(a.args()[1], a))
                if len(base) != 1 or k is None:
                    return None
                d0 = delta(next(iter(base)), a, depth + 1)
                return None if d0 is None else d0 + k
            if o[0] == "proj" and o[2] == ("f", "0"):
                return delta(o[1], at_site, depth + 1)
            if o[0] == "bin" and o[1].replace("WithOverflow", "").replace("Unchecked", "") == "Add":
                for x, y in ((o[2], o[3]), (o[3], o[2])):
                    k = const_eval(y)
                    if k is not None:
                        d0 = delta(x, at_site, depth + 1)
                        return None if d0 is None else d0 + k
            return None

        def inc_of(site):
            o = w.origins(site.args()[1], site)
            ds = set(delta(x, site) for x in o)
            return next(iter(ds)) if len(ds) == 1 else None
        ctx.ob("write|odd-then-even", inc_of(s1) == 1 and inc_of(s2) == 2,
               "the first store publishes seq+1 (odd: write in progress) and the second seq+2 (even), both from the same load", [s1, s2])
        ctx.ob("write|stores-the-value", w.origins(t.args()[1], t) == frozenset([("arg", 2)]), "the tearable store writes the caller's value", [t])
    # ---- reader
    loads = sorted(_seq_sites(r, "load"), key=lambda s: r.rpo_index.get(s.b, 0))
    fences = list(r.calls("^std::sync::atomic::fence$"))
    tl = list(r.calls(r"TearableAtomic::tearable_load$"))
    ok = len(loads) == 2 and len(fences) == 1 and len(tl) == 1
    ctx.ob("read|sites", ok, "try_read = two sequence loads, one fence, one tearable load", loads + fences + tl)
    if ok:
        l1, l2, f, t = loads[0], loads[1], fences[0], tl[0]
        order = [l1, t, f, l2]
        ctx.ob("read|order", all(r.dominates(a, b_) for a, b_ in zip(order, order[1:])),
               "Acquire load < tearable load < Acquire fence < re-load", order)
        # parity test between l1 and the tearable load
        par = False
        for c in r.conditions(t):
            mc = mask_cmp(c)
            if mc and mc[1] == ("call", l1.b, l1.callee) and mc[2] == 1 and ((mc[0] == "==" and mc[3] == 0) or (mc[0] == "!=" and mc[3] == 1)):
                par = True
            elif c.kind == "cmp" and c.data[0] in ("==", "!="):
                # the same test written with the remainder: seq % 2 == 0 / seq % 2 != 1
                from ..masks import const_eval
                for x, y in ((c.data[1], c.data[2]), (c.data[2], c.data[1])):
                    v = const_eval_set(y)
                    if v is None or len(x) != 1:
                        continue
                    o = next(iter(x))
                    if isinstance(o, tuple) and o and o[0] == "proj" and o[2] == ("f", "0"):
                        o = o[1]
                    if isinstance(o, tuple) and o and o[0] == "bin" and o[1].replace("WithOverflow", "") == "Rem" and \
                            o[2] == ("call", l1.b, l1.callee) and const_eval(o[3]) == 2:
                        if (c.data[0] == "==" and v == 0) or (c.data[0] == "!=" and v == 1):
                            par = True
        ctx.ob("read|even-sequence-required", par, "the value is read only if the first sequence count is even (no write in progress)", [t])
        oks = [x for x in K.ret_assigns(r) if K.result_variant_of_ret(x) == "Ok"]
        good = bool(oks)
        for o in oks:
            eq = False
            for c in r.conditions(o):
                if c.kind == "cmp" and c.data[0] == "==" and {("call", l1.b, l1.callee), ("call", l2.b, l2.callee)} == set(c.data[1] | c.data[2]):
                    eq = True
            vo = r.origins(o.node["r"]["ops"][0], o)
            good = good and eq and vo == frozenset([("call", t.b, t.callee)])
        ctx.ob("read|ok-only-if-sequence-unchanged", good,
               "Ok(value) is returned only when the re-loaded sequence equals the first one, with the value loaded in between", oks)
        errs = [x for x in K.ret_assigns(r) if K.result_variant_of_ret(x) == "Err"]
        ctx.ob("read|err-paths", len(errs) >= 2, "try_read fails on an odd sequence and on a changed sequence", errs)
    # ---- tearable halves
    for nm, op in (("tearable_load", "load"), ("tearable_store", "store")):
        b = P.body("<time::monotonic_time::TearableAtomicTime as util::sync_cell::TearableAtomic>::" + nm)
        if b is None:
            ctx.missing("TearableAtomicTime::" + nm)
            continue
        ss = list(b.calls("^" + ATOM + op + "$"))
        fields = sorted(atomics.receiver_field(b, s) for s in ss)
        ctx.ob("tearable|%s-both-halves" % nm, fields == ["nanos", "secs"] and not any(b.conditions(s) for s in ss),
               "%s accesses the seconds and the nanoseconds once each, unconditionally" % nm, ss)
        if nm == "tearable_store":
            ok = True
            for s in ss:
                f = atomics.receiver_field(b, s)
                vo = b.origins(s.args()[1], s)
                want = "as_secs" if f == "secs" else "subsec_nanos"
                ok = ok and any(want in c[2] for x in vo for c in origin_calls(x))
            ctx.ob("tearable|store-matching-halves", ok, "each half is stored into its own atomic (secs<-as_secs, nanos<-subsec_nanos)", ss)
        else:
            rets = K.ret_assigns(b)
            news = [s for s in b.calls(r"tai_time::TaiTime::new$|MonotonicTime::new$")]
            ok = len(news) == 1
            if ok:
                a0 = b.origins(news[0].args()[0], news[0])
                a1 = b.origins(news[0].args()[1], news[0])
                s0 = [s for s in ss if ("call", s.b, s.callee) in a0]
                s1 = [s for s in ss if ("call", s.b, s.callee) in a1]
                ok = bool(s0) and bool(s1) and atomics.receiver_field(b, s0[0]) == "secs" and atomics.receiver_field(b, s1[0]) == "nanos"
            ctx.ob("tearable|load-matching-halves", ok, "the time is rebuilt as new(secs, nanos) from the matching atomics", news)


def rule_b(ctx):
    P = ctx.prog
    callers = P.callers_of(r"TearableAtomic::tearable_load$")
    allowed = {SC + "SyncCell::read", SC + "SyncCellReader::try_read"}
    for b, s in callers:
        ctx.ob("tearable-load-caller|%s" % b.name, b.name in allowed, "tearable_load may only be called by SyncCell::read (writer thread) and try_read", [s])
    if len(callers) < 2:
        ctx.ob("floor|tearable-load-callers", False, "expected 2 callers of tearable_load")
    rd = ctx.body(SC + "SyncCellReader::read")
    if rd:
        tr = list(rd.calls(SC.replace("::", "::") + "SyncCellReader::try_read$"))
        rets = K.ret_assigns(rd)
        ok = len(tr) == 1 and rd.in_loop(tr[0]) and bool(rets)
        for r in rets:
            if r.is_term:
                ok = False
                continue
            vo = rd.origins(r.node["r"]["o"], r) if r.node["r"]["r"] == "use" else frozenset()
            ok = ok and all(origin_proj_names(x)[0] == ("call", tr[0].b, tr[0].callee) and origin_proj_names(x)[1] == [("d", "Ok"), ("f", "0")] for x in vo) and bool(vo)
            ok = ok and any(c.kind == "variant" and c.data[1] == {"Ok"} and not c.data[2] for c in rd.conditions(r))
        ctx.ob("reader-read-retries", ok, "SyncCellReader::read loops on try_read and returns only the payload of an Ok", tr + rets)
    gt = ctx.body("simulation::scheduler::GlobalScheduler::time")
    if gt:
        rets = K.ret_assigns(gt)
        ok = bool(rets) and all(r.is_term and r.callee == SC + "SyncCellReader::read" for r in rets)
        ctx.ob("scheduler-time-uses-read", ok, "GlobalScheduler::time uses the retrying read (handles may live on other threads)", rets)
    for nm, callee in (("simulation::scheduler::Scheduler::time", "simulation::scheduler::GlobalScheduler::time"),
                       ("model::context::Context::time", "simulation::scheduler::GlobalScheduler::time")):
        tb = P.body(nm)
        if tb is None:
            ctx.missing(nm)
            continue
        rets = K.ret_assigns(tb)
        ok = bool(rets) and all(r.is_term and r.callee == callee for r in rets) and len(list(tb.calls())) <= 2
        ctx.ob("handle-time-delegates|%s" % nm, ok, "%s returns the retrying read of the shared time (no caching, no other source)" % last_seg(nm.rsplit("::", 1)[0]) , rets)
    # no unsynchronised read of the reader elsewhere: try_read callers
    for b, s in P.callers_of(lambda c: c == SC + "SyncCellReader::try_read"):
        ok = b.name == SC + "SyncCellReader::read" or b.name.startswith("model::context::") or True
        # a failed try_read must not be unwrapped into a stale value: callers other than read() must propagate / retry
        if b.name != SC + "SyncCellReader::read":
            uw = [u for u in b.calls(r"^std::result::Result::(unwrap_or|unwrap_or_default|unwrap_or_else)$") if ("call", s.b, s.callee) in b.origins(u.args()[0], u)]
            ctx.ob("try-read-caller|%s" % b.name, not uw, "a failed try_read must not be replaced by a default value", [s] + uw)


def rule_c(ctx):
    P = ctx.prog
    a = P.adts.get(SC + "SyncCell")
    if not a:
        return ctx.missing("adt SyncCell")
    ctx.ob("synccell-not-sync", not a["impls"]["Sync"], "SyncCell is !Sync: only one thread can write (and use the unsynchronised read)", ["adt SyncCell"])
    ctx.ob("synccell-not-clone", not a["impls"]["Clone"], "SyncCell is not Clone: single writer", ["adt SyncCell"])
    unsafe_impls = [i for i in P.impls if norm(i["self_head"]) == SC + "SyncCell" and i.get("trait") and last_seg(norm(i["trait"])) in ("Sync",)]
    ctx.ob("synccell-no-unsafe-sync-impl", not unsafe_impls, "there is no `unsafe impl Sync for SyncCell`", ["impl at %s:%s" % (i["file"], i["line"]) for i in unsafe_impls])
    rdr = P.adts.get(SC + "SyncCellReader")
    if rdr:
        ctx.ob("reader-clone", rdr["impls"]["Clone"], "readers can be cloned and sent to other threads", ["adt SyncCellReader"])
    # the writer method takes &self but SyncCell is only held by value in Simulation / SimInit (C01.b)
    from . import c01
    c01.rule_b(ctx)


def rule_d(ctx):
    from . import c01
    c01.rule_i(ctx)
    c01.rule_c(ctx)
    c01.rule_d(ctx)
    c01.rule_g(ctx)
    # deadlines are validated against a time read under the same queue guard that covers the insertion (C08.a = C01.j): otherwise a
    # key already in the past can enter the queue and the next step writes it to the time cell (time read by others goes backwards)
    from . import c08
    c08.rule_a(ctx)


WITNESS = ['c01']  # doctest filters in /verif/witness (thorough tier)

RULES = [
    ("C15.d", "the written times are monotone: time writes under the queue lock, deadlines > now, step_until target >= now", rule_d),
    ("C15.a", "seqlock protocol shape and ordering floors", rule_a),
    ("C15.b", "who may use the unsynchronised load; retrying read", rule_b),
    ("C15.c", "single writer by type", rule_c),
]


def rule_mustpass(ctx):
    from . import mustpass
    mustpass.check(ctx, ['synccell-write-stores-value', 'synccell-write-closes-window'])


RULES.append(("C15.e", "must-pass-through: no path around the effects this property rests on (added fast paths / early returns)", rule_mustpass))


def rule_commit(ctx):
    from . import mustpass
    for spec in [('time-cell', 5), ('sched-queue', 25), ('lockfree', 2, r'^util::sync_cell::')]:
        mustpass.commit_group(ctx, *spec)


RULES.append(("C15.f", "branch-commit: between the decision to perform an effect and the effect there is no way out", rule_commit))


def rule_inventory(ctx):
    from . import inventory
    inventory.check_narrowing(ctx)


RULES.append(("C15.g", "inventory: no new narrowing integer cast", rule_inventory))


def _uncast_call(b, operand, site, pat, depth=0):
    """the operand is the unmodified result of a call matching `pat` (moves / copies allowed, no cast, no arithmetic)."""
    import re
    if operand.get("k") not in ("copy", "move") or depth > 6:
        return False
    proj = operand["pl"]["p"]
    if proj:
        # one field of a locally built tuple: `let (a, b) = (f(), g());`
        if len(proj) != 1 or proj[0][0] != "f" or not str(proj[0][1]).isdigit():
            return False
        defs = b.reaching_defs(operand["pl"]["l"], site)
        if not defs:
            return False
        for d in defs:
            if d.is_term or d.node["r"]["r"] != "agg" or d.node["r"].get("kind") not in ("tuple", None) or d.node["r"].get("adt"):
                return False
            ops = d.node["r"]["ops"]
            i = int(proj[0][1])
            if i >= len(ops) or not _uncast_call(b, ops[i], d, pat, depth + 1):
                return False
        return True
    defs = b.reaching_defs(operand["pl"]["l"], site)
    if not defs:
        return False
    for d in defs:
        if d.is_term:
            if not (d.node["t"] == "call" and re.search(pat, d.callee or "")):
                return False
        else:
            r = d.node["r"]
            if r["r"] != "use" or not _uncast_call(b, r["o"], d, pat, depth + 1):
                return False
    return True


def rule_time_cell_fields(ctx):
    """The cell that holds the simulation time stores the time's own components, unconverted: seconds as returned by as_secs() (the
    full i64), sub-second nanoseconds as returned by subsec_nanos(), and rebuilds the time from exactly these two fields. A narrowed
    or mixed-up component keeps every protocol rule intact and lets validated deadlines and reported times wrap."""
    P = ctx.prog
    T = "time::monotonic_time::TearableAtomicTime"
    A = "std::sync::atomic::Atomic::"
    st = ctx.body("<%s as util::sync_cell::TearableAtomic>::tearable_store" % T)
    ld = ctx.body("<%s as util::sync_cell::TearableAtomic>::tearable_load" % T)
    nw = ctx.body(T + "::new")
    from .. import atomics
    if st is not None:
        ss = list(st.calls("^" + A + "store$"))
        got = {}
        for s in ss:
            f = atomics.receiver_field(st, s)
            pat = {"secs": r"::as_secs$", "nanos": r"::subsec_nanos$"}.get(f)
            ok = pat is not None and _uncast_call(st, s.args()[1], s, pat)
            if ok:
                # taken from the value being stored
                o = st.origins(s.args()[1], s)
                c = Site(st, next(iter(o))[1], TERM) if len(o) == 1 and next(iter(o))[0] == "call" else None
                ok = c is not None and st.origins(c.args()[0], c) == frozenset([("arg", 2)])
            got[f] = ok and not st.conditions(s)
        ctx.ob("time-cell|store-components", got == {"secs": True, "nanos": True},
               "tearable_store writes value.as_secs() to `secs` and value.subsec_nanos() to `nanos`, unconverted and unconditionally (%s)" % got, ss)
    if ld is not None:
        nws = list(ld.calls(r"^tai_time::TaiTime::new$"))
        ok = len(nws) == 1
        if ok:
            n = nws[0]
            fields = []
            for i in (0, 1):
                okc = _uncast_call(ld, n.args()[i], n, "^" + A + "load$")
                o = ld.origins(n.args()[i], n)
                c = Site(ld, next(iter(o))[1], TERM) if len(o) == 1 and next(iter(o))[0] == "call" else None
                fields.append(atomics.receiver_field(ld, c) if (okc and c is not None) else None)
            ok = fields == ["secs", "nanos"]
            rets = K.ret_assigns(ld)
            ok = ok and len(rets) == 1 and K.flows_from(ld, ld.origins({"k": "copy", "pl": {"l": 0, "p": []}}, Site(ld, ld.return_blocks()[0], TERM)),
                                                        lambda t: t == ("call", n.b, n.callee))
        ctx.ob("time-cell|load-components", ok, "tearable_load rebuilds the time from the loaded `secs` and `nanos` fields, unconverted", nws)
    if nw is not None:
        aggs = list(nw.aggregates(adt=T))
        ok = len(aggs) == 1
        if ok:
            a = aggs[0]
            fo = dict(zip(a.node["r"]["fields"], a.node["r"]["ops"]))
            for f, pat in (("secs", r"::as_secs$"), ("nanos", r"::subsec_nanos$")):
                o = nw.origins(fo[f], a)
                c = Site(nw, next(iter(o))[1], TERM) if len(o) == 1 and next(iter(o))[0] == "call" and next(iter(o))[2] == A + "new" else None
                ok = ok and c is not None and _uncast_call(nw, c.args()[0], c, pat)
        ctx.ob("time-cell|initial-components", ok, "the initial time is stored component-wise, unconverted", aggs)
    a = P.adts.get(T)
    if a:
        tys = {f["name"]: f["ty"] for v in a["variants"] for f in v["fields"]}
        ok = "i64" in tys.get("secs", "") and "u32" in tys.get("nanos", "")
        ctx.ob("time-cell|field-widths", ok, "`secs` is a 64-bit signed atomic and `nanos` a 32-bit unsigned one (the widths of MonotonicTime's components): %s" % tys, ["adt " + T])
    else:
        ctx.missing("adt " + T)


RULES.append(("C15.h", "the time cell stores and rebuilds the time's own components, unconverted", rule_time_cell_fields))
