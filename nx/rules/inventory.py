"""State-mutation inventories (who-may-mutate rules with a ceiling).

Most rules of this checker are anchored at sites that exist today (a guard must dominate this call, that store must use this
ordering). A change that *adds* code - a clean-up step that clears a container, a fast path that pulls from the scheduler queue, a
second push - touches none of those anchors. The inventories close that side: for each piece of critical state they list, per source
file, how many call sites of each content-changing operation exist today (read and confirmed by hand), and an obligation fails when
a site appears in a file that has none today or the count in a file grows. Counts are per file and per operation, not per function
or line, so moving code between functions of one file, or restyling it, stays silent; removing a site is not an inventory failure
(the anchored rules fail closed on a missing anchor).

Two kinds of entry:
  api : an internal operation (e.g. PriorityQueue::pull) -> {file: max number of call sites}
  std : a source file that owns a container -> {std content-changing method: max number of call sites in that file}
"""
import collections
import re

from ..core import last_seg

# content-changing methods of std containers / Option / slab / mem (reads, capacity management and constructors are not listed)
_MUT = (
    "push push_back push_front pop pop_back pop_front insert remove swap_remove remove_entry clear truncate drain retain retain_mut append "
    "split_off resize resize_with extend extend_from_slice set_len dedup dedup_by dedup_by_key take replace swap get_or_insert "
    "get_or_insert_with insert_with take_if rotate_left rotate_right sort sort_by sort_by_key sort_unstable sort_unstable_by reverse fill "
    "fill_with iter_mut get_mut as_mut_slice as_mut_slices as_mut peek_mut into_vec into_sorted_vec try_remove vacant_entry last_mut "
    "first_mut front_mut back_mut make_contiguous entry or_insert or_insert_with pop_first pop_last split_at_mut swap_with_slice "
    "copy_from_slice clone_from_slice zeroize forget"
).split()
STD_MUT = re.compile(
    r"^(std::(collections::(VecDeque|BinaryHeap|BTreeMap|HashMap|BTreeSet|HashSet|binary_heap::PeekMut)|vec::Vec|option::Option|mem)|slab::Slab)::(%s)$"
    % "|".join(_MUT)
)

PQ = "util::priority_queue::PriorityQueue::"
IPQ = "util::indexed_priority_queue::IndexedPriorityQueue::"

ENTRIES = {
    # ---------------------------------------------------------------- internal operations
    "sched-queue-pull": dict(
        kind="api", callee="^" + re.escape(PQ) + "pull$",
        allowed={"nexosim/src/simulation.rs": 2},
        why="a scheduled action leaves the scheduler queue only in the stepping loop of step_to_next_bounded (first pull + pull_next_action); "
            "a pull anywhere else silently drops an accepted request",
    ),
    "sched-queue-insert": dict(
        kind="api", callee="^" + re.escape(PQ) + "insert$",
        allowed={"nexosim/src/simulation.rs": 1, "nexosim/src/simulation/scheduler.rs": 5},
        why="an action enters the scheduler queue only through the five validated schedule*_from functions and the periodic re-insertion of "
            "pull_next_action; an insertion anywhere else bypasses deadline/period validation or doubles an occurrence",
    ),
    "keyed-queue-ops": dict(
        kind="api", callee="^" + re.escape(IPQ) + "(insert|pull|extract)$",
        allowed={"nexosim/src/grpc/key_registry.rs": 4}, may_be_absent=True,
        why="the indexed queue is only driven by the gRPC key registry (insert_key, insert_eternal_key, extract_key, remove_expired_keys)",
    ),
    "mailbox-push": dict(
        kind="api", callee=r"^channel::queue::Queue::push$", allowed={"nexosim/src/channel.rs": 1},
        why="a message enters a mailbox only in Sender::send (after the back-pressure wait)",
    ),
    "mailbox-pop": dict(
        kind="api", callee=r"^channel::queue::Queue::pop$", allowed={"nexosim/src/channel.rs": 1},
        why="a message leaves a mailbox only in Receiver::recv; a pop anywhere else loses it",
    ),
    "mailbox-close": dict(
        kind="api", callee=r"^channel::queue::Queue::close$", allowed={"nexosim/src/channel.rs": 4},
        why="a mailbox is closed only by Sender/Receiver close and drop",
    ),
    "mailbox-recv": dict(
        kind="api", callee=r"^channel::Receiver::recv$", allowed={"nexosim/src/simulation.rs": 1},
        why="the only consumer of a model's mailbox is the model loop spawned by add_model",
    ),
    "mailbox-address": dict(
        kind="api", callee=r"^simulation::mailbox::Mailbox::address$",
        allowed={"nexosim/src/model/context.rs": 1, "nexosim/src/simulation.rs": 1, "nexosim/src/simulation/mailbox.rs": 1},
        why="an Address is a sender handle, and dropping the last sender handle closes the mailbox for good; the framework creates one only "
            "where it is kept (the model's own Context) or handed to the user (BuildContext::address, From<&Mailbox>) - a temporary one "
            "created and dropped while it is the only handle silently disconnects the model",
    ),
    "seq-future-build": dict(
        kind="api", callee=r"^util::seq_futures::SeqFuture::(new|push)$", allowed={"nexosim/src/simulation.rs": 3},
        why="same-origin sequences are only assembled by the stepping loop",
    ),
    "task-set-take": dict(
        kind="api", callee=r"^util::task_set::TaskSet::(take_scheduled|discard_scheduled)$",
        allowed={"nexosim/src/ports/output/broadcaster.rs": 2, "nexosim/src/ports/source/broadcaster.rs": 1, "nexosim/src/util/task_set.rs": 1},
        why="scheduled sub-tasks are consumed only by the broadcast futures' poll (and discard_scheduled, which is take_scheduled)",
    ),
    # ---------------------------------------------------------------- containers, per owning file
    "file:priority_queue": dict(
        kind="std", file="nexosim/src/util/priority_queue.rs",
        allowed={"std::collections::BinaryHeap::push": 1, "std::collections::BinaryHeap::pop": 1},
        why="the heap is changed by one push (insert) and one pop (pull); no clear / drain / retain / peek_mut / into_vec",
    ),
    "file:indexed_priority_queue": dict(
        kind="std", file="nexosim/src/util/indexed_priority_queue.rs",
        allowed={"std::vec::Vec::push": 2, "std::vec::Vec::pop": 2, "std::mem::replace": 2},
        why="heap and slab grow in insert and shrink (heap) / free a slot (slab, through mem::replace) in pull and extract only",
    ),
    "file:event_buffer": dict(
        kind="std", file="nexosim/src/ports/sink/event_buffer.rs",
        allowed={"std::collections::VecDeque::push_back": 1, "std::collections::VecDeque::pop_front": 2, "std::collections::VecDeque::drain": 1},
        why="events enter at the back in write; leave at the front on overflow (write), in next, and through the drain of __try_fold",
    ),
    "file:event_slot": dict(
        kind="std", file="nexosim/src/ports/sink/event_slot.rs",
        allowed={"std::option::Option::take": 1},
        equiv={"std::mem::take": "std::option::Option::take"},
        why="the slot is emptied only by the reader's take",
    ),
    "file:seq_futures": dict(
        kind="std", file="nexosim/src/util/seq_futures.rs",
        allowed={"std::vec::Vec::push": 1},
        why="futures are appended by push and never removed or reordered",
    ),
    "file:task_set": dict(
        kind="std", file="nexosim/src/util/task_set.rs",
        allowed={"std::vec::Vec::push": 1},
        why="the task list only grows (resize)",
    ),
    "file:mailbox-queue": dict(
        kind="std", file="nexosim/src/channel/queue.rs",
        allowed={"std::vec::Vec::push": 1, "std::mem::replace": 2},
        why="the slot buffer is filled once in new; push/pop move a message through mem::replace of the slot's cell",
    ),
    "file:st_executor": dict(
        kind="std", file="nexosim/src/executor/st_executor.rs",
        allowed={"std::vec::Vec::push": 3, "std::vec::Vec::pop": 1, "slab::Slab::vacant_entry": 2, "slab::Slab::try_remove": 1, "slab::Slab::drain": 1,
                 "std::option::Option::take": 1, "std::option::Option::as_mut": 1},
        why="run queue: pushed by spawn, spawn_and_forget, schedule_task, popped only by the run loop; cancel tokens: registered at spawn, "
            "removed by the future's drop, drained by the executor's drop",
    ),
    "file:mt_executor": dict(
        kind="std", file="nexosim/src/executor/mt_executor.rs",
        allowed={"slab::Slab::vacant_entry": 2, "slab::Slab::try_remove": 1, "slab::Slab::drain": 1, "std::vec::Vec::drain": 1},
        equiv={"std::vec::Vec::pop": "std::vec::Vec::drain"},
        why="cancel tokens: registered at spawn, removed by the future's drop, drained by the executor's drop; worker handles drained (joined) in drop",
    ),
    "file:injector": dict(
        kind="std", file="nexosim/src/executor/mt_executor/injector.rs",
        allowed={"std::vec::Vec::push": 4, "std::vec::Vec::pop": 1, "std::mem::replace": 1},
        why="buckets are pushed by insert_task / push_bucket and leave only through pop_bucket",
    ),
}


def _sites(prog, pred_body, callee_re):
    out = []
    for b in prog.all_bodies():
        if "::tests" in b.name or not pred_body(b):
            continue
        for s in b.calls(callee_re):
            out.append(s)
    return out


def check(ctx, ids):
    """One obligation per inventory entry in `ids`."""
    P = ctx.prog
    for eid in ids:
        e = ENTRIES[eid]
        if e["kind"] == "api":
            sites = _sites(P, lambda b: True, e["callee"])
            cen = collections.Counter(s.body.file for s in sites)
            allowed = e["allowed"]
        else:
            sites = _sites(P, lambda b, f=e["file"]: b.file == f, STD_MUT)
            # `equiv`: std calls that do the same thing as a confirmed one at this site (counted under the confirmed name)
            eq = e.get("equiv", {})
            cen = collections.Counter(eq.get(s.callee, s.callee) for s in sites)
            allowed = e["allowed"]
        if not sites:
            if e.get("may_be_absent"):
                ctx.ob("inventory|%s|not-compiled" % eid, True, "not part of this configuration", [])
            else:
                ctx.missing("inventory %s: no site matched (%s)" % (eid, e.get("callee") or e.get("file")))
            continue
        over = [k for k, n in cen.items() if n > allowed.get(k, 0)]
        bad = [s for s in sites if (s.body.file if e["kind"] == "api" else e.get("equiv", {}).get(s.callee, s.callee)) in over]
        what = "mutation inventory `%s`: %s. Confirmed sites: %s; found: %s" % (
            eid, e["why"], ", ".join("%s x%d" % (last_seg(k) if e["kind"] == "std" else k.replace("nexosim/src/", ""), v) for k, v in sorted(allowed.items())),
            ", ".join("%s x%d" % (last_seg(k) if e["kind"] == "std" else k.replace("nexosim/src/", ""), v) for k, v in sorted(cen.items())))
        ctx.ob("inventory|%s" % eid, not over, what, bad or sites)


# ---------------------------------------------------------------------------------------------------------------------------
# Await inventory: which kinds of future are polled on the delivery / execution path, per file.
#
# The delivery clauses argue "a send completes only once the message is in the recipient's mailbox" by checking the completion rule of
# every future on the path from Output::send / EventSource::event down to channel::Sender::send: BroadcastFuture::poll (count, re-poll
# discipline), RecycledFuture, SeqFuture, the channel's wait loops. That argument enumerates the futures; a future of a new kind polled
# on that path (a hand-written join of two sends, a timeout wrapper, a select) completes by a rule nothing here has checked, so it is
# reported instead of being silently trusted.

_NOISE = {
    "std::pin::Pin", "std::boxed::Box", "std::result::Result", "std::option::Option", "std::future::Future", "std::marker::Send",
    "std::marker::Sync", "std::iter::Iterator", "std::ops::FnOnce", "std::ops::FnMut",
}
_PATH = re.compile(r"[A-Za-z_][A-Za-z_0-9]*(?:::[A-Za-z_][A-Za-z_0-9]*)+")


def await_kind(site):
    """A stable description of what is being polled: the resolved callee when it is a coroutine, and the named types in the
    polled place's type (closure source positions and lifetimes removed)."""
    from ..core import norm
    n = site.node
    t = (n.get("argtys") or [""])[0]
    t = re.sub(r"\{closure@[^}]*\}", "{closure}", t)
    names = sorted(set(norm(x) for x in _PATH.findall(t)) - _NOISE)
    if "dyn std::future::Future" in t:
        names.append("dyn Future")
    if "impl std::future::Future" in t:
        names.append("impl Future")
    r = n.get("resolved_n")
    if r and "{closure" in r:
        names.append("=" + r)
    if not names:
        names.append("generic parameter")
    return " + ".join(names)


AWAIT_FILES = {
    # file -> kinds of future polled there today (each read and matched with the rule that covers its completion)
    "nexosim/src/ports/output/broadcaster.rs": {
        "channel::SendError + ports::output::sender::RecycledFuture",     # single-recipient arm, and the sub-futures polled by BroadcastFuture::poll
        "ports::output::broadcaster::BroadcastFuture",                     # multi-recipient arm (C02.c/C03.c/C04.h/C14.* poll rules)
    },
    "nexosim/src/ports/source/broadcaster.rs": {
        "channel::SendError + dyn Future",                                 # boxed sender futures (single arm + sub-futures)
        "ports::source::broadcaster::BroadcastFuture",
    },
    "nexosim/src/ports/output.rs": {
        "channel::SendError + impl Future + =ports::output::broadcaster::EventBroadcaster::broadcast::{closure#0}",
        "channel::SendError + impl Future + =ports::output::broadcaster::QueryBroadcaster::broadcast::{closure#0}",
        "channel::SendError + ports::output::sender::RecycledFuture",     # UniRequestor
    },
    "nexosim/src/ports/source.rs": {
        "channel::SendError + impl Future + =ports::source::broadcaster::EventBroadcaster::broadcast::{closure#0}",
        "channel::SendError + ports::source::broadcaster::ReplyIterator + impl Future + =ports::source::broadcaster::QueryBroadcaster::broadcast::{closure#0}",
    },
    "nexosim/src/ports/output/sender.rs": {
        "channel::SendError + impl Future + =channel::Sender::send::{closure#0}",
        "dyn Future",                                                      # RecycledFuture::poll delegating to the boxed future
        "multishot::Recv",                                                 # reply of a replier
        "ports::input::model_fn::ReplierFn",                               # the replier's own future, run by the recipient
    },
    "nexosim/src/ports/source/sender.rs": {
        "channel::SendError + impl Future + =channel::Sender::send::{closure#0}",
        "futures_channel::oneshot::Receiver",
        "ports::input::model_fn::ReplierFn",
    },
    "nexosim/src/channel.rs": {
        "async_event::WaitUntil",                                          # sender's wait for space
        "channel::MessageFn + channel::queue::MessageBorrow + diatomic_waker::WaitUntil",   # receiver's wait for a message
        "dyn Future",                                                      # the handler future run by recv
    },
    "nexosim/src/util/seq_futures.rs": {"generic parameter"},
    "nexosim/src/simulation/scheduler.rs": {
        "channel::SendError + impl Future + =channel::Sender::send::{closure#0}",
        "generic parameter",                                               # OnceAction polling its wrapped future
        "ports::input::model_fn::InputFn",
    },
    "nexosim/src/simulation.rs": {
        "channel::RecvError + impl Future + =channel::Receiver::recv::{closure#0}",
        "channel::SendError + impl Future + =channel::Sender::send::{closure#0}",
        "generic parameter",                                               # ModelFuture polling the model loop
        "model::InitializedModel + model::ProtoModel + impl Future",      # Model::init
        "ports::input::model_fn::ReplierFn",
    },
}


def await_census(prog, file):
    cen = collections.defaultdict(list)
    for b in prog.all_bodies():
        if "::tests" in b.name or b.file != file:
            continue
        for s in b.calls(r"^std::future::Future::poll$"):
            cen[await_kind(s)].append(s)
    return cen


def check_awaits(ctx, files=None):
    """One obligation per file of the delivery / execution path: no future of an unreviewed kind is polled there."""
    P = ctx.prog
    for f in (files or sorted(AWAIT_FILES)):
        cen = await_census(P, f)
        if not cen:
            ctx.missing("await inventory: no Future::poll site in " + f)
            continue
        allowed = AWAIT_FILES[f]
        new = sorted(k for k in cen if k not in allowed)
        bad = [s for k in new for s in cen[k]]
        ctx.ob("awaits|%s" % f.replace("nexosim/src/", ""), not new,
               "every future polled in %s is of a kind whose completion rule is covered (%d kinds, %d poll sites)%s" % (
                   f, len(allowed), sum(len(v) for v in cen.values()),
                   "; unreviewed: " + "; ".join(new) if new else ""),
               bad or [s for v in cen.values() for s in v][:6])


# ---------------------------------------------------------------------------------------------------------------------------
# Narrowing integer casts. Value origins look through casts, so a counter, epoch, index or time component that is squeezed through
# `as u32` keeps its origin and every flow rule still holds, while the value silently wraps. The crate has seven narrowing casts
# (rng, task_set's packed u32 indices, one worker-count mask), each read; any other narrowing `as` is reported.
_W = {"u8": 8, "i8": 8, "u16": 16, "i16": 16, "u32": 32, "i32": 32, "u64": 64, "i64": 64, "usize": 64, "isize": 64, "u128": 128, "i128": 128}
NARROWING_ALLOWED = {
    "nexosim/src/executor/mt_executor/pool_manager.rs": 1,   # set_all_workers_active: pool_size as u32 (shift amount, pool_size <= usize::BITS checked in new)
    "nexosim/src/util/rng.rs": 3,                             # 128-bit multiply, high / low halves
    "nexosim/src/grpc/codegen/simulation.rs": 1,             # generated tonic code: `tonic::Code::Unimplemented as i32` (enum discriminant), grpc feature only
    "nexosim/src/util/task_set.rs": 5,                        # packed (u32 index, u32 countdown) words; lengths checked against u32::MAX
}


def narrowing_casts(prog):
    out = []
    for b in prog.all_bodies():
        if "::tests" in b.name:
            continue
        for s in b.assigns():
            r = s.node["r"]
            if r["r"] != "cast" or "IntToInt" not in str(r.get("kind")):
                continue
            o = r["o"]
            src = None
            if o.get("k") in ("copy", "move") and not o["pl"]["p"]:
                src = b.locals[o["pl"]["l"]]["ty"]
            elif o.get("k") == "const":
                src = o.get("ty")
            dst = r.get("ty")
            if src in _W and dst in _W and _W[dst] < _W[src]:
                out.append(s)
    return out


# which source files carry integers a property's clauses reason about (a new narrowing cast elsewhere is none of its business)
S_ = "nexosim/src/"
NARROWING_SCOPE = {
    "C01": ["simulation.rs", "simulation/", "model/context.rs", "util/priority_queue.rs", "util/indexed_priority_queue.rs", "util/seq_futures.rs", "time/", "util/sync_cell.rs", "ports/source"],
    "C05": ["executor", "channel"],
    "C07": ["simulation.rs", "simulation/", "model/context.rs", "util/priority_queue.rs", "util/seq_futures.rs", "ports/source"],
    "C08": ["simulation.rs", "simulation/", "model/context.rs", "time/", "util/sync_cell.rs", "util/priority_queue.rs", "ports/source"],
    "C10": ["simulation.rs", "simulation/", "model/context.rs", "util/seq_futures.rs", "util/priority_queue.rs", "ports/source"],
    "C12": ["channel"],
    "C13": ["executor"],
    "C14": ["ports/", "util/task_set.rs", "util/cached_rw_lock.rs", "util/slot.rs"],
    "C15": ["time/", "util/sync_cell.rs", "simulation.rs", "simulation/", "model/context.rs"],
    "C17": ["ports/", "util/cached_rw_lock.rs", "util/task_set.rs"],
    "C18": ["simulation.rs", "simulation/", "time/", "util/sync_cell.rs"],
    "C20": ["util/priority_queue.rs", "util/indexed_priority_queue.rs"],
}


def check_narrowing(ctx):
    sites = narrowing_casts(ctx.prog)
    cen = collections.Counter(s.body.file for s in sites)
    pid = (ctx.rule or "")[:3]
    scope = NARROWING_SCOPE.get(pid)
    in_scope = (lambda f: True) if scope is None else (lambda f: any(f.startswith(S_ + x) for x in scope))
    over = [f for f, n in cen.items() if n > NARROWING_ALLOWED.get(f, 0) and in_scope(f)]
    bad = [s for s in sites if s.body.file in over]
    ctx.ob("inventory|narrowing-casts", not over,
           "no integer is narrowed with `as` outside the %d reviewed sites in the modules this property reasons about (a narrowed counter / epoch / "
           "index keeps its origin for every flow rule but wraps at run time)%s" % (sum(NARROWING_ALLOWED.values()), "; new: " + ", ".join(sorted(over)) if over else ""), bad or sites)
    if not sites:
        ctx.missing("narrowing-cast inventory: no cast site found (the extractor no longer reports casts?)")
