"""C05 Model isolation: one computation at a time per model — structural clauses a..d."""
from ..core import Site, TERM, norm, origin_calls, origin_proj_names, last_seg, Cond, origin_contains
from . import common as K
from . import c13, c16, c12

EXPLANATION = (
    "Decides: (a) each model is owned by exactly one task: add_model spawns one coroutine that owns the model, its context "
    "and the mailbox receiver; Model::init and Receiver::recv are only called from that coroutine; recv takes &mut self and "
    "Receiver/Mailbox are not Clone; (b) the model task calls init then recv strictly sequentially, and inside recv the "
    "future returned by the message closure is polled to Ready before recv returns Ok (the handler, including its "
    "suspensions, finishes before the next message is popped); (c) at most one Runnable exists per task: Runnable "
    "constructors are only called by spawn/spawn_and_forget (initial wake count 1) and by Task::wake under "
    "`pre-state & (WAKE_MASK|CLOSED|POLLING) == POLLING` after the wake-count overflow guard, Runnable is not Clone and "
    "run/cancel consume it; a Runnable whose poll returned Pending re-polls (instead of returning) whenever the wake count "
    "changed, and returns only with the count cleared; (d) ordering floors of the wake / run hand-over. NOT decided: mutual "
    "exclusion of polls under every wake/steal/cancel interleaving (C11 memory model)."
)
TRUSTED = K.TRUSTED


def recv_awaits_handler(ctx):
    P = ctx.prog
    rcv = P.body("channel::Receiver::recv::{closure#0}")
    if rcv is None:
        return ctx.missing("channel::Receiver::recv coroutine")
    calls = list(rcv.calls("^channel::MessageFn::call_once$"))
    ctx.ob("recv|call-once", len(calls) == 1 and not rcv.in_loop(calls[0]), "the popped message closure is invoked exactly once per receive", calls)
    if len(calls) != 1:
        return
    c = calls[0]
    # the poll whose future derives from the closure's result
    polls = [p for p in rcv.calls("^std::future::Future::poll$")
             if K.flows_from(rcv, rcv.origins(p.args()[0], p), lambda t: t == ("call", c.b, c.callee))]
    ctx.ob("recv|handler-future-polled", len(polls) == 1, "the future returned by the message closure is polled by recv itself", polls)
    oks = [r for r in K.ret_assigns(rcv) if K.result_variant_of_ret(r) == "Ok"]
    if polls:
        p = polls[0]
        ok = bool(oks) and all(any(x.kind == "variant" and x.data[1] == {"Ready"} and not x.data[2] and
                                   x.data[0] == frozenset([("call", p.b, p.callee)]) for x in rcv.conditions(r)) for r in oks)
        ctx.ob("recv|ok-only-after-handler-ready", ok,
               "recv returns Ok only after the handler future returned Ready (the handler runs to completion before the next message)", oks)
        # Pending -> yield -> poll again (no return in between)
        ys = [y for y in rcv.term_sites("yield") if rcv.can_reach(p, y) and rcv.can_reach(y, p)]
        ctx.ob("recv|pending-suspends-and-repolls", bool(ys), "a pending handler suspends recv and is polled again when resumed", ys)
    # pop happens before call_once, only one message per recv
    pops = [s for b in P.family(P.body("channel::Receiver::recv")) for s in b.calls("^channel::queue::Queue::pop$")]
    ctx.ob("recv|one-pop-site", len(pops) == 1, "one message is popped per receive", pops)


def rule_a(ctx):
    c16.rule_a(ctx)
    c16.rule_b(ctx)
    c12.rule_d(ctx)


def rule_b(ctx):
    from . import inventory, mustpass
    inventory.check(ctx, ["mailbox-recv"])
    mustpass.check(ctx, ["recv-runs-handler"])
    recv_awaits_handler(ctx)
    P = ctx.prog
    # the model task is strictly sequential: no join/select/spawn inside the task coroutine
    b, cors = c16.model_task(P)
    for c in cors:
        sp = [s for s in c.calls(r"spawn|join|select")]
        ctx.ob("task-sequential|%s" % c.name, not sp, "the model task does not spawn or join concurrent computations on the model", sp or [c.loc()])


def rule_c(ctx):
    P = ctx.prog
    c13.rule_b(ctx)
    c13.rule_e(ctx)
    a = P.adts.get("executor::task::runnable::Runnable")
    if not a:
        return ctx.missing("adt Runnable")
    ctx.ob("runnable-not-clone", not a["impls"]["Clone"] and not a["impls"]["Copy"], "Runnable is neither Clone nor Copy", ["adt Runnable"])
    for m in ("run", "cancel"):
        rb = P.body("executor::task::runnable::Runnable::" + m)
        if rb is None:
            if m == "run":
                ctx.missing("Runnable::run")
            continue
        ctx.ob("runnable-%s-consumes" % m, rb.locals[1]["ty"] == "executor::task::runnable::Runnable", "Runnable::%s takes self by value" % m, [rb.loc()])


def rule_d(ctx):
    K.check_floors(ctx, "C05")


WITNESS = ['c16::mailbox']  # doctest filters in /verif/witness (thorough tier)

RULES = [
    ("C05.a", "one task owns the model and its receiver", rule_a),
    ("C05.b", "init then sequential receives; handler awaited to completion", rule_b),
    ("C05.c", "at most one Runnable per task; re-poll instead of re-schedule", rule_c),
    ("C05.d", "ordering floors of wake / run", rule_d),
]


def rule_mustpass(ctx):
    from . import mustpass
    mustpass.check(ctx, ['recv-runs-handler', 'wakers-wake', 'wake-updates-state', 'model-task-inits', 'model-task-receives', 'model-task-ends-only-on-error-or-abort'])


RULES.append(("C05.e", "must-pass-through: no path around the effects this property rests on (added fast paths / early returns)", rule_mustpass))


def rule_commit(ctx):
    from . import mustpass
    for g, floor in [('pool', 40), ('task-wake', 10)]:
        mustpass.commit_group(ctx, g, floor)


RULES.append(("C05.f", "branch-commit: between the decision to perform an effect and the effect there is no way out", rule_commit))


def rule_state_layout(ctx):
    from . import c13
    c13.rule_state_layout(ctx)
    c13.rule_runnable_exists(ctx)
    c13.rule_cancel_refcount(ctx)
    c13.rule_state_updates(ctx)
    c13.rule_waker_vtable(ctx)


RULES.append(("C05.g", "layout of the packed task state word; runnable_exists predicate", rule_state_layout))


def rule_inventory(ctx):
    from . import inventory
    inventory.check_narrowing(ctx)


RULES.append(("C05.h", "inventory: no new narrowing integer cast", rule_inventory))


def rule_scoped_keys(ctx):
    from . import scopedkey
    scopedkey.rules(ctx)


RULES.append(("C05.i", "scoped thread-local keys install, hand out and restore the right pointer: a task sees the context (worker, active-task list, simulation context) of its own executor only", rule_scoped_keys))
