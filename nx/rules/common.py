"""Helpers shared by the per-property rule modules (anchors of the NeXosim code base)."""
from ..core import (
    Site,
    TERM,
    norm,
    origin_calls,
    origin_contains,
    origin_proj_names,
    last_seg,
)

TIME_WRITE = "util::sync_cell::SyncCell::write"
TIME_READS = {
    "util::sync_cell::SyncCell::read",
    "util::sync_cell::SyncCellReader::read",
    "util::sync_cell::SyncCellReader::try_read",
    "simulation::scheduler::GlobalScheduler::time",
    "simulation::scheduler::Scheduler::time",
}
PQ_INSERT = "util::priority_queue::PriorityQueue::insert"
PQ_PULL = "util::priority_queue::PriorityQueue::pull"
PQ_PEEK = "util::priority_queue::PriorityQueue::peek"
MUTEX_LOCK = "std::sync::Mutex::lock"
CLOCK_SYNC = "time::clock::Clock::synchronize"
SIM = "simulation::Simulation"
SIM_RUN = "simulation::Simulation::run"
EXEC_RUN = "executor::Executor::run"
SPAWNS = {
    "simulation::scheduler::Action::spawn_and_forget",
    "executor::Executor::spawn_and_forget",
    "executor::Executor::spawn",
}
INTO_TIME = "time::Deadline::into_time"

TRUSTED = [
    "rustc 1.97 nightly: type checking, trait resolution and MIR construction (mir_built)",
    "the fact extractor /verif/driver (serialises MIR 1:1; reviewed; fails closed on nonce/end marker)",
    "dependency crates and std as black boxes with their documented contracts",
    "the rule catalog of DESIGN.md section 5 (which structural clauses are necessary for the property)",
]


def is_sched_queue_ty(ty):
    return ty is not None and "priority_queue::PriorityQueue<(" in ty and "scheduler::Action" in ty


def sim_bodies(prog):
    """bodies of `impl Simulation` plus their closures / nested fns."""
    out = []
    for b in prog.all_bodies():
        if b.impl_self == SIM and b.impl_trait is None:
            out.append(b)
            out.extend(prog.children(b))
    return out


def in_family(prog, body, roots):
    """is body one of roots or lexically nested in one of them?"""
    for r in roots:
        if body.name == r or body.name.startswith(r + "::"):
            return True
    return False


def owner_fn(prog, body):
    """outermost fn-like body this body is nested in (closures -> their defining fn)."""
    name = body.name
    while True:
        b = prog.body(name)
        if b is not None and b.kind in ("Fn", "AssocFn"):
            # nested fn items are their own owner only if no parent body exists
            parent = name.rsplit("::", 1)[0] if "::" in name else None
            if parent and prog.body(parent) is not None and prog.body(parent).kind in ("Fn", "AssocFn"):
                name = parent
                continue
            return b
        if "::" not in name:
            return body
        name = name.rsplit("::", 1)[0]


# ---------------------------------------------------------------------------
# scheduler-queue lock discipline

def queue_guard_locals(body):
    """locals of type MutexGuard<SchedulerQueue> (by value)."""
    out = []
    for i, l in enumerate(body.locals):
        ty = l["ty"]
        if ty.startswith("std::sync::MutexGuard<") and is_sched_queue_ty(ty):
            out.append(i)
    return out


def _operand_moves_local(op, local):
    return op.get("k") == "move" and op["pl"]["l"] == local and not op["pl"]["p"]


def guard_kill(body, local):
    """predicate: does this site end the life of guard `local`?"""

    def kill(site):
        n = site.node
        if site.is_term:
            t = n["t"]
            if t == "drop" and n["pl"]["l"] == local and not n["pl"]["p"]:
                return True
            if t == "call":
                return any(_operand_moves_local(a, local) for a in n["args"])
            return False
        if n["s"] == "dead" and n["l"] == local:
            return True
        if n["s"] == "assign":
            from ..core import rvalue_operands

            return any(_operand_moves_local(o, local) for o in rvalue_operands(n["r"]))
        return False

    return kill


def guard_gens(body, local):
    """definition sites of the guard local (result of lock().unwrap() or a move into it)."""
    return list(body.all_defs(local))


def queue_lock_held(body, site):
    """True iff some MutexGuard<SchedulerQueue> local is must-initialised at `site`.

    A guard received as a parameter (e.g. `&mut MutexGuard<..>` helper argument) also counts:
    the helper can only be called by someone holding the guard.
    """
    for i in range(1, body.argc + 1):
        ty = body.locals[i]["ty"]
        if "std::sync::MutexGuard<" in ty and is_sched_queue_ty(ty):
            return True
    for g in queue_guard_locals(body):
        gens = guard_gens(body, g)
        if gens and body.must_hold(gens, guard_kill(body, g), site):
            return True
    return False


# ---------------------------------------------------------------------------
# misc

def call_arg_origins(site, idx):
    a = site.args()
    if idx >= len(a):
        return frozenset()
    return site.body.origins(a[idx], site)


def has_call(origins, callee_pred):
    pred = callee_pred if callable(callee_pred) else (lambda c: c == callee_pred or c in callee_pred)
    for o in origins:
        for c in origin_calls(o):
            if pred(c[2]):
                return True
    return False


def root_calls(origins):
    out = []
    for o in origins:
        out.extend(origin_calls(o))
    return out


def ret_assigns(body):
    """assign sites writing the return place _0 (whole), plus call sites whose dest is _0."""
    out = []
    for s in body.sites():
        n = s.node
        if s.is_term:
            if n["t"] == "call" and n["dest"]["l"] == 0 and not n["dest"]["p"]:
                out.append(s)
        elif n["s"] == "assign" and n["p"]["l"] == 0 and not n["p"]["p"]:
            out.append(s)
    return out


def result_variant_of_ret(site):
    """'Ok' / 'Err' / None for an assignment to _0."""
    n = site.node
    if site.is_term:
        c = n.get("callee_n")
        if c == "std::ops::FromResidual::from_residual":
            return "Err"
        return None
    r = n["r"]
    if r["r"] == "agg" and norm(r.get("adt", "")) == "std::result::Result":
        return r["variant"]
    return None


def cmp_implies(cond, op, a_pred, b_pred):
    """does Cond (kind 'cmp') establish `A op B` with origin sets recognised by a_pred / b_pred?

    Accepts the mirrored form (B op' A). `op` in {'<','<=','>','>=','==','!='}; a strict
    relation also satisfies its non-strict form.
    """
    from ..core import SWAP

    if cond.kind != "cmp":
        return False
    cop, A, B, _ = cond.data
    forms = [(cop, A, B), (SWAP[cop], B, A)]
    implied = {
        "<": {"<"},
        "<=": {"<", "<=", "=="},
        ">": {">"},
        ">=": {">", ">=", "=="},
        "==": {"=="},
        "!=": {"!=", "<", ">"},
    }[op]
    for (o, x, y) in forms:
        if o in implied and a_pred(x) and b_pred(y):
            return True
    return False


def origin_is_arg(origins, n):
    return origins and all(o == ("arg", n) for o in origins)


def describe_origin(o, depth=0):
    if depth > 6:
        return "..."
    if isinstance(o, frozenset) or isinstance(o, set):
        return "{" + ", ".join(sorted(describe_origin(x, depth + 1) for x in o)) + "}"
    if not isinstance(o, tuple) or not o:
        return str(o)
    k = o[0]
    if k == "call":
        return "call:%s@bb%d" % (last_seg(o[2]), o[1])
    if k == "proj":
        e = o[2]
        return "%s.%s" % (describe_origin(o[1], depth + 1), e[1] if len(e) > 1 else e[0])
    if k == "arg":
        return "arg%d" % o[1]
    if k == "const":
        return "const(%s)" % (o[2] if o[1] is None else o[1],)
    if k == "agg":
        return "agg:%s%s" % (last_seg(o[3] or "?"), ("::" + o[4]) if o[4] else "")
    return "(" + " ".join(describe_origin(x, depth + 1) if isinstance(x, tuple) else str(x) for x in o) + ")"


# ---------------------------------------------------------------------------
# K6(i): ordering floors

def check_floors(ctx, pid):
    """one obligation per floor-table entry of this property."""
    from .. import atomics
    from ..ordering_table import entries_for

    ents = entries_for(pid)
    ks = atomics.keyed_sites(ctx.prog)
    n = 0
    for key, (floors, props, reason) in sorted(ents.items()):
        fn, field, op, idx = key
        kid = "%s|%s|%s#%d" % (fn, field or "-", op, idx)
        if key not in ks:
            ctx.ob("floor|" + kid, False,
                   "expected atomic operation not found: %s on `%s` in %s (the operation kind is part of the requirement: %s)" % (op, field or "fence", fn, reason))
            continue
        site, ords = ks[key]
        n += 1
        ok = len(ords) == len(floors) and all(atomics.at_least(a, f) for a, f in zip(ords, floors))
        ctx.ob("floor|" + kid, ok,
               "memory ordering %s is weaker than the floor %s: %s" % (ords, floors, reason) if not ok else
               "ordering %s >= floor %s: %s" % (ords, floors, reason), [site])
    # population (informational, keeps the evidence honest about what exists)
    return n


def flows_from(body, origins, pred, depth=8, _seen=None):
    """does any origin (or, transitively, any argument of a call appearing in it) satisfy pred?"""
    if _seen is None:
        _seen = set()
    for o in origins:
        if origin_contains(o, pred):
            return True
        if depth <= 0:
            continue
        for c in origin_calls(o):
            if c in _seen:
                continue
            _seen.add(c)
            cs = Site(body, c[1], TERM)
            for a in cs.args():
                if flows_from(body, body.origins(a, cs), pred, depth - 1, _seen):
                    return True
        for a in _origin_aggs(o):
            if a in _seen:
                continue
            _seen.add(a)
            s = Site(body, a[1], a[2])
            for op in s.node["r"]["ops"]:
                if flows_from(body, body.origins(op, s), pred, depth - 1, _seen):
                    return True
    return False


def _origin_aggs(o):
    out = []
    if isinstance(o, tuple):
        if o and o[0] == "agg":
            out.append(o)
        for x in o:
            if isinstance(x, tuple):
                out.extend(_origin_aggs(x))
    return out


def whole_value_overwrites(prog, adt_names, skip=lambda b: False):
    """Sites that replace a whole live value of one of `adt_names` in place (and so reset every field of it at once):
    an assignment to a projected place (`*self = ..`, `self.queue = ..`, `slot[i] = ..`) whose type is the ADT, or a
    std::mem::{replace, swap, take} instantiated at the ADT. Initialising a fresh local is not an overwrite."""
    from ..core import norm
    out = []
    for b in prog.all_bodies():
        if skip(b):
            continue
        for s in b.assigns():
            ph = s.node.get("ph")
            if ph and norm(ph) in adt_names:
                out.append(s)
        for s in b.calls(r"^std::mem::(replace|swap|take)$"):
            g = s.node.get("gargs") or []
            if g and any(norm(str(x)).split("<", 1)[0] in adt_names for x in g[:1]):
                out.append(s)
    return out


def field_escapes(prog, owner_adt, field, skip=lambda b: False):
    """Sites that create a way to modify `owner_adt.field` other than a direct assignment: a `&mut` borrow or a raw
    pointer taken to the field (or to a place inside it). Used with writer inventories of plain (non-atomic) counters."""
    from ..core import norm, last_seg
    import re
    out = []
    for b in prog.all_bodies():
        if skip(b):
            continue
        if last_seg(b.name) in ("project", "project_ref", "project_replace") and owner_adt in b.name and \
                not prog.callers_of("^" + re.escape(b.name) + "$"):
            # #[pin_project] generates these projections; one that nobody calls hands out no reference
            continue
        for s in b.assigns():
            r = s.node["r"]
            if r["r"] == "ref" and not r.get("mut"):
                continue
            if r["r"] not in ("ref", "rawptr"):
                continue
            for el in r["pl"]["p"]:
                if el != "*" and el[0] == "f" and el[2] == field and norm(el[3]) == owner_adt:
                    out.append(s)
                    break
    return out


def failure_results(body):
    """sites that make the function's result an Err: explicit Err(..) aggregates assigned to the return place and `?` propagation."""
    return [r for r in ret_assigns(body) if result_variant_of_ret(r) == "Err"]


def result_flows_from_variant(body, r, variant):
    """does the value of the failure result r flow from an aggregate of the given enum variant (e.g. OutOfSync)?"""
    ops = r.args() if r.is_term else r.node["r"]["ops"]
    src = frozenset().union(*[body.origins(op, r) for op in ops]) if ops else frozenset()
    return flows_from(body, src, lambda t: t[0] == "agg" and len(t) > 4 and t[4] == variant)
