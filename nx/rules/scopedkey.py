"""Scoped thread-local keys (`macros/scoped_thread_local.rs`): the mechanism that tells a running task which worker, which
executor context, which active-task list and which simulation context it belongs to.

`set(t, f)` installs a pointer to `t` for the duration of `f` and restores the previous pointer afterwards, also when `f`
unwinds; `unset(f)` does the same with a null pointer; `map(f)` hands the installed value to `f` and yields None when nothing
is installed. A scope that leaks (no restore, or a restore of the wrong value) lets a task of one executor / model see the
context of another one, or dereference a dangling pointer.
"""
from ..core import Site, TERM, last_seg, origin_proj_names
from . import common as K

SK = "macros::scoped_thread_local::ScopedLocalKey::"


def _with_closure(P, b):
    ws = list(b.calls(r"^std::thread::LocalKey::with$"))
    if len(ws) != 1:
        return None, None
    cls = [c for c in P.children(b) if c.kind == "Closure"]
    # the closure handed to `with`
    for c in cls:
        for cs in P.creation_sites(c):
            if cs.body is b:
                return ws[0], c
    return ws[0], None


def rules(ctx):
    P = ctx.prog
    n = 0
    for op in ("set", "unset"):
        b = ctx.body(SK + op)
        if b is None:
            continue
        w, cb = _with_closure(P, b)
        if w is None or cb is None:
            ctx.ob("scoped-key|%s|swap-closure" % op, False, "expected one LocalKey::with call with a closure", [b.loc()])
            continue
        n += 1
        gets = list(cb.calls(r"^std::cell::Cell::(get|replace)$"))
        sets = list(cb.calls(r"^std::cell::Cell::(set|replace)$"))
        ok = len(gets) == 1 and len(sets) == 1 and (gets[0] == sets[0] or cb.dominates(gets[0], sets[0]))
        ctx.ob("scoped-key|%s|previous-read-before-overwrite" % op, ok, "the previous pointer is read (once) before the new one is stored (once)", gets + sets)
        if ok:
            rets = K.ret_assigns(cb)
            ro = set()
            for r in rets:
                if r.is_term:
                    ro.add(("call", r.b, r.callee))
                elif r.node["r"]["r"] == "use":
                    ro |= set(cb.origins(r.node["r"]["o"], r))
                else:
                    ro.add(("other",))
            ctx.ob("scoped-key|%s|closure-returns-previous" % op, ro == {("call", gets[0].b, gets[0].callee)}, "the swap closure returns the pointer that was installed before", rets)
            vo = P.resolved_origins(cb, sets[0].args()[1], sets[0])
            if op == "set":
                okv = bool(vo) and all(K.flows_from(b, frozenset([x]), lambda t: t == ("arg", 2)) or x == ("arg", 2) for x in vo)
                ctx.ob("scoped-key|set|installs-pointer-to-argument", okv, "set() installs a pointer to the value it was given", sets)
            else:
                okv = bool(vo) and all(x[0] == "call" and x[2] == "std::ptr::null" for x in vo)
                ctx.ob("scoped-key|unset|installs-null", okv, "unset() installs the null pointer", sets)
        aggs = [a for a in b.aggregates() if (a.node["r"].get("adt") or "").endswith("::Reset")]
        calls = list(b.calls(r"^std::ops::FnOnce::call_once$"))
        ok = len(aggs) == 1 and len(calls) == 1
        if ok:
            a = aggs[0]
            fo = dict(zip(a.node["r"]["fields"], a.node["r"]["ops"]))
            ok = set(fo) == {"key", "val"} and b.origins(fo["val"], a) == frozenset([("call", w.b, w.callee)])
            if ok:
                ko = b.origins(fo["key"], a)
                wo = b.origins(w.args()[0], w)
                ok = bool(ko) and all(origin_proj_names(x)[1][-1:] == [("f", "inner")] and origin_proj_names(x)[0] == ("arg", 1) for x in ko | wo)
            ctx.ob("scoped-key|%s|guard-holds-previous-pointer-of-same-key" % op, ok,
                   "the restore guard is built from this key and the pointer returned by the swap", [a])
            ok2 = b.dominates(w, a) and b.dominates(a, calls[0])
            # the guard lives across the call: it is dropped after the call on the normal path and on the unwind path
            dl = a.node["p"]["l"]
            drops = [s for s in b.sites(include_cleanup=True) if s.is_term and s.node["t"] == "drop" and s.node["pl"]["l"] == dl and not s.node["pl"]["p"]]
            normal = [s for s in drops if not b.blocks[s.b].get("cleanup")]
            cleanup = [s for s in drops if b.blocks[s.b].get("cleanup")]
            ok2 = ok2 and len(normal) >= 1 and all(b.dominates(calls[0], s) for s in normal) and len(cleanup) >= 1
            moved = [s for s in b.sites() if not s.is_term and s.node.get("s") == "assign" and s.node["r"]["r"] == "use"
                     and s.node["r"]["o"]["k"] == "move" and s.node["r"]["o"]["pl"]["l"] == dl]
            fg = list(b.calls(r"^std::mem::(forget|ManuallyDrop::new)$"))
            ok2 = ok2 and not moved and not fg
            ctx.ob("scoped-key|%s|restored-after-closure-also-on-unwind" % op, ok2,
                   "the guard is created before the user closure runs and dropped after it, on the normal and on the unwind path (never forgotten or moved away)",
                   [a] + calls + drops)
        else:
            ctx.ob("scoped-key|%s|guard-holds-previous-pointer-of-same-key" % op, False, "expected one restore guard and one call of the user closure", aggs + calls)
        # the guard's Drop
        dn = [x for x in P.all_bodies() if x.impl_trait and last_seg(x.impl_trait.split("<")[0]) == "Drop" and last_seg(x.name) == "drop"
              and x.impl_self and x.impl_self.endswith("::%s::Reset" % op)]
        if len(dn) != 1:
            ctx.ob("scoped-key|%s|guard-drop" % op, False, "expected the Drop impl of the restore guard (found %d)" % len(dn), [b.loc()])
            continue
        d = dn[0]
        w2, c2 = _with_closure(P, d)
        ok = w2 is not None and c2 is not None
        if ok:
            ko = d.origins(w2.args()[0], w2)
            ok = bool(ko) and all(origin_proj_names(x)[1][-1:] == [("f", "key")] for x in ko)
            ss = list(c2.calls(r"^std::cell::Cell::(set|replace)$"))
            ok = ok and len(ss) == 1 and not c2.conditions(ss[0])
            if ok:
                vo = P.resolved_origins(c2, ss[0].args()[1], ss[0])
                ok = bool(vo) and all(origin_proj_names(x)[1][-1:] == [("f", "val")] for x in vo)
        ctx.ob("scoped-key|%s|guard-drop-restores-saved-pointer" % op, ok, "dropping the guard stores the saved pointer back into the guard's own key, unconditionally", [d.loc()])
    m = ctx.body(SK + "map")
    if m is not None:
        n += 1
        ws = list(m.calls(r"^std::thread::LocalKey::with$"))
        nul = list(m.calls(r"is_null$"))
        fc = list(m.calls(r"^std::ops::FnOnce::call_once$"))
        ok = len(ws) == 1 and len(nul) == 1 and len(fc) == 1
        if ok:
            ok = m.origins(nul[0].args()[0], nul[0]) == frozenset([("call", ws[0].b, ws[0].callee)])
            conds = m.conditions(fc[0])
            ok = ok and any(c.kind == "call" and c.data[0].endswith("is_null") and c.data[1] is False for c in conds)
            # the value handed to f is the installed pointer
            ao = m.origins(fc[0].args()[1], fc[0])
            ok = ok and bool(ao) and all(K.flows_from(m, frozenset([x]), lambda t: t == ("call", ws[0].b, ws[0].callee)) for x in ao)
        ctx.ob("scoped-key|map|value-only-when-installed", ok, "map() calls f with the installed pointer and only when it is not null", ws + nul + fc)
        cl = [c for c in P.children(m) if c.kind == "Closure"]
        okc = len(cl) == 1 and len(list(cl[0].calls(r"^std::cell::Cell::get$"))) == 1 and not list(cl[0].calls(r"^std::cell::Cell::(set|replace|take)$"))
        ctx.ob("scoped-key|map|reads-without-changing", okc, "map() only reads the installed pointer", [m.loc()])
    ctx.ob("floor|scoped-key-functions", n == 3, "set, unset and map of ScopedLocalKey are analysed (found %d)" % n)
