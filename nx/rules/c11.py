"""C11 Failure classification and termination — clauses a..g (DESIGN.md section 5, C11)."""
from ..core import Site, TERM, norm, origin_calls, origin_proj_names, last_seg, Cond, origin_contains
from . import common as K
from . import c01

EXPLANATION = (
    "Decides: (a) from every public `&mut self` method of Simulation, each effect (time write, spawn, "
    "clock synchronisation, executor run) lies on the `!is_terminated` side of a test of the termination "
    "flag whose other side builds Err(Terminated); (b) every fatal ExecutionError variant built in "
    "impl Simulation is preceded by `is_terminated = true`, non-fatal ones are not; (c) the "
    "ExecutorError -> ExecutionError mapping table incl. the SendError type-id test and the model-name "
    "lookup; (d) unwrap_or_throw turns Err(e) into panic_any(e); (e) ModelFuture::poll brackets the "
    "inner poll with CURRENT_MODEL_ID.set(id) / set(none) on the normal path only and both executors "
    "take() the id on the panic path; (f) the ModelId is the index at which the name is pushed; (g) "
    "port futures surface SendError through unwrap_or_throw. NOT decided: attribution when several "
    "models fail concurrently, timing of Timeout."
)
TRUSTED = K.TRUSTED

FATAL = {"Deadlock", "MessageLoss", "NoRecipient", "Panic", "Timeout", "OutOfSync"}
NONFATAL = {"BadQuery", "InvalidDeadline"}
EXEC_ERR = "simulation::ExecutionError"
TERMINATED_FLAG = ("proj", ("arg", 1), ("f", "is_terminated"))


def _is_flag_cond(c, truth):
    return c.kind == "bool" and c.data[1] is truth and c.data[0] == frozenset([TERMINATED_FLAG])


def fn_guarded(P, b, eff, memo):
    """all effect sites of b are guarded by !is_terminated or are calls of guarded Simulation fns.
    returns list of unguarded sites."""
    if b.name in memo:
        return memo[b.name]
    memo[b.name] = []  # recursion guard
    bad = []
    for s in c01.effect_sites(P, b, eff):
        conds = b.conditions(s)
        if any(_is_flag_cond(c, False) for c in conds):
            continue
        callee = s.resolved or s.callee
        cb = P.body(callee) if callee else None
        if cb is not None and cb.impl_self == K.SIM and cb.impl_trait is None:
            # delegated: fine if the callee is itself fully guarded and receives the same self
            if not fn_guarded(P, cb, eff, memo):
                continue
        bad.append(s)
    memo[b.name] = bad
    return bad


def rule_a(ctx):
    P = ctx.prog
    eff = c01.effect_callees(P)
    memo = {}
    entries = [b for b in P.all_bodies()
               if b.impl_self == K.SIM and b.impl_trait is None and b.is_public()
               and b.argc >= 1 and b.locals[1]["ty"] == "&mut simulation::Simulation"]
    names = sorted(b.name for b in entries)
    need = {K.SIM + "::" + n for n in ("step", "step_until", "process", "process_event", "process_query")}
    for n in sorted(need - set(names)):
        ctx.missing("public entry point " + n)
    for b in entries:
        sites = c01.effect_sites(P, b, eff)
        bad = fn_guarded(P, b, eff, memo)
        ctx.ob("terminated-guard|%s" % b.name, not bad,
               "after a fatal error no public method may act: every effect reachable from %s must be on the "
               "`!is_terminated` side of a test of the flag" % last_seg(b.name), bad or sites)
    # wherever the flag is tested, the `true` side builds Err(Terminated) and has no effect
    n_tests = 0
    for b in K.sim_bodies(P):
        for blk in sorted(b.live_blocks):
            if b.blocks[blk]["term"]["t"] != "switch":
                continue
            for tgt in b.succ[blk]:
                c = Cond(b, blk, tgt)
                if _is_flag_cond(c, True):
                    n_tests += 1
                    region = b.reachable(tgt)
                    effs = [s for s in c01.effect_sites(P, b, eff) if s.b in region and not b.block_dominates(tgt, s.b) is False and
                            not any(_is_flag_cond(x, False) for x in b.conditions(s))]
                    terms = [s for s in b.aggregates(adt=EXEC_ERR, variant="Terminated") if b.block_dominates(tgt, s.b)]
                    ctx.ob("terminated-side|%s" % b.name, bool(terms) and not effs,
                           "the `is_terminated` side must build Err(Terminated) and perform no effect", [c.site] + effs)
    ctx.ob("floor|flag-tests", n_tests >= 1, "expected at least one test of is_terminated (found %d)" % n_tests)


def _flag_assign_sites(P, b):
    """assignments `is_terminated = true` in body b (through closure captures too)."""
    out = []
    for s in b.assigns():
        n = s.node
        r = n["r"]
        if r["r"] != "use" or r["o"].get("k") != "const" or r["o"].get("v") is not True:
            continue
        dest = P.resolved_origins(b, n["p"], s, place=True)
        if dest == frozenset([TERMINATED_FLAG]):
            out.append(s)
    return out


def rule_b(ctx):
    P = ctx.prog
    seen = set()
    for b in K.sim_bodies(P):
        sets = _flag_assign_sites(P, b)
        for s in b.aggregates(adt=EXEC_ERR):
            v = s.node["r"]["variant"]
            if v in FATAL:
                seen.add(v)
                ok = any(b.dominates(a, s) for a in sets)
                ctx.ob("fatal-sets-flag|%s|%s" % (K.owner_fn(P, b).name, v), ok,
                       "building the fatal error %s must be preceded by `is_terminated = true`" % v, [s])
            elif v in NONFATAL:
                seen.add(v)
                ok = not any(b.dominates(a, s) or b.can_reach(s, a) for a in sets)
                ctx.ob("nonfatal-keeps-usable|%s|%s" % (K.owner_fn(P, b).name, v), ok,
                       "the non-fatal error %s must not terminate the simulation" % v, [s])
    for v in sorted((FATAL | NONFATAL) - seen):
        ctx.missing("construction of ExecutionError::" + v + " in impl Simulation")


def rule_c(ctx):
    P = ctx.prog
    # the mapping body: the body in Simulation's family that switches on an ExecutorError
    mapping = None
    for b in K.sim_bodies(P):
        if any(s.node["r"]["variant"] in ("Deadlock", "MessageLoss") for s in b.aggregates(adt=EXEC_ERR)):
            mapping = b
    if mapping is None:
        return ctx.missing("ExecutorError -> ExecutionError mapping body")
    b = mapping
    fn = b.name

    def exec_variant(c, names):
        return c.kind == "variant" and norm(c.data[3] or "") == "executor::ExecutorError" and c.data[1] == set(names) and not c.data[2]

    table = {"Timeout": "Timeout", "MessageLoss": "UnprocessedMessages", "Deadlock": "UnprocessedMessages",
             "NoRecipient": "Panic", "Panic": "Panic"}
    found = set()
    for s in b.aggregates(adt=EXEC_ERR):
        v = s.node["r"]["variant"]
        if v not in table:
            ctx.ob("map|unexpected|%s" % v, False, "unexpected ExecutionError::%s built in the mapping closure" % v, [s])
            continue
        found.add(v)
        conds = b.conditions(s)
        ctx.ob("map|%s<-%s" % (v, table[v]), any(exec_variant(c, [table[v]]) for c in conds),
               "ExecutionError::%s must be produced exactly for ExecutorError::%s" % (v, table[v]), [s])
        if v in ("MessageLoss", "Deadlock"):
            want_empty = v == "MessageLoss"
            ok = any(c.kind == "call" and c.data[0] == "std::vec::Vec::is_empty" and c.data[1] is want_empty for c in conds)
            ctx.ob("map|%s|list-%s" % (v, "empty" if want_empty else "nonempty"), ok,
                   "MessageLoss iff no observed mailbox holds messages, Deadlock otherwise", [s])
        if v == "MessageLoss":
            po = b.origins(s.node["r"]["ops"][0], s)
            ok = po == frozenset([("proj", ("proj", ("arg", 2), ("d", "UnprocessedMessages")), ("f", "0"))])
            ctx.ob("map|MessageLoss|count", ok, "MessageLoss(n) carries the executor's unprocessed-message count", [s])
        if v in ("NoRecipient", "Panic"):
            def is_typeid_cmp(c, op):
                if c.kind != "cmp" or c.data[0] != op:
                    return False
                calls = set(x[2] for o in (c.data[1] | c.data[2]) for x in origin_calls(o))
                return "std::any::Any::type_id" in calls and "std::any::TypeId::of" in calls
            op = "==" if v == "NoRecipient" else "!="
            ctx.ob("map|%s|typeid" % v, any(is_typeid_cmp(c, op) for c in conds),
                   "NoRecipient iff the panic payload's type id equals TypeId::of::<SendError>(); Panic otherwise", [s])
        if v == "Panic":
            ok = any(c.kind == "variant" and c.data[1] == {"Some"} and not c.data[2] for c in conds)
            ctx.ob("map|Panic|model-known", ok, "Panic{model,..} only when the model id resolves to a name", [s])
            po = b.origins(s.node["r"]["ops"][1], s)
            ok = po == frozenset([("proj", ("proj", ("arg", 2), ("d", "Panic")), ("f", "1"))])
            ctx.ob("map|Panic|payload", ok, "Panic carries the original payload", [s])
    for v in sorted(set(table) - found):
        ctx.missing("mapping to ExecutionError::" + v)
    # TypeId::of::<SendError>
    tids = list(b.calls("std::any::TypeId::of$"))
    ctx.ob("map|typeid-of-SendError", bool(tids) and all(t.node.get("gargs") == ["channel::SendError"] for t in tids),
           "the payload is compared with TypeId::of::<channel::SendError>()", tids)
    # internal panics are re-raised
    ru = list(b.calls("std::panic::resume_unwind$"))
    ok = bool(ru) and all(any(exec_variant(c, ["Panic"]) for c in b.conditions(s)) for s in ru)
    ctx.ob("map|internal-panic-resumed", ok, "a panic without model id is re-raised with resume_unwind", ru)
    # model name lookup: model_names[id]
    ok = False
    sites = []
    for cb in P.children(b):
        for g in cb.calls(r"core::slice::<impl \[T\]>::get$|std::vec::Vec::get$|std::ops::Index::index$"):
            a0 = P.resolved_origins(cb, g.args()[0], g)
            a1 = cb.origins(g.args()[1], g)
            sites.append(g)
            if a1 == frozenset([("arg", 2)]) and any(origin_contains(o, lambda t: t[0] == "proj" and t[2] == ("f", "model_names")) for o in a0):
                ok = True
    ctx.ob("map|model-name-lookup", ok, "the model name is model_names[id] with id taken from the ModelId", sites)
    # ... and that lookup is the *only* source of the `model` field of NoRecipient / Panic (no second table, no fallback)
    for v in ("NoRecipient", "Panic"):
        for s in b.aggregates(adt="simulation::ExecutionError", variant=v):
            r = s.node["r"]
            fo = dict(zip(r.get("fields") or [], r["ops"]))
            if "model" not in fo:
                continue
            mo = b.origins(fo["model"], s)
            good = bool(mo)
            for o in mo:
                rt, names = origin_proj_names(o)
                if not (rt[0] == "call" and rt[2] == "std::option::Option::map"):
                    good = False
                    continue
                ms = Site(b, rt[1], TERM)
                # receiver: ModelId::get(..); mapper: the closure doing the model_names lookup
                ro = b.origins(ms.args()[0], ms)
                good = good and bool(ro) and all(x[0] == "call" and x[2] == "simulation::ModelId::get" for x in ro)
                co = b.origins(ms.args()[1], ms)
                lookups = set(g.body.name for g in sites)
                good = good and bool(co) and all(x[0] == "agg" and x[3] in lookups for x in co)
            ctx.ob("map|%s|model-from-model-names" % v, good and ok,
                   "the `model` of %s is exactly ModelId::get().map(|id| model_names[id]) (origins: %s)" % (v, K.describe_origin(mo)), [s])


def rule_d(ctx):
    P = ctx.prog
    bs = P.find(r"UnwrapOrThrow>::unwrap_or_throw$")
    if not bs:
        return ctx.missing("UnwrapOrThrow::unwrap_or_throw")
    for b in bs:
        pa = list(b.calls("std::panic::panic_any$"))
        ok = bool(pa)
        for s in pa:
            conds = b.conditions(s)
            ok = ok and any(c.kind == "variant" and c.data[1] == {"Err"} for c in conds)
            ok = ok and b.origins(s.args()[0], s) == frozenset([("proj", ("proj", ("arg", 1), ("d", "Err")), ("f", "0"))])
        ctx.ob("err-throws|%s" % b.name, ok, "unwrap_or_throw must panic_any(e) exactly on Err(e)", pa)
        rets = K.ret_assigns(b)
        ok = bool(rets) and all(not r.is_term and b.origins(r.node["r"]["o"], r) == frozenset([("proj", ("proj", ("arg", 1), ("d", "Ok")), ("f", "0"))]) for r in rets if not r.is_term and r.node["r"]["r"] == "use")
        ctx.ob("ok-returns|%s" % b.name, ok, "unwrap_or_throw returns the Ok value unchanged", rets)


LK_SET = "std::thread::LocalKey::set"
LK_TAKE = "std::thread::LocalKey::take"
CUR = "simulation::CURRENT_MODEL_ID"


def _is_cur(body, site, idx=0):
    o = body.origins(site.args()[idx], site)
    return any(x[0] == "const" and x[2] == CUR for x in o)


def rule_e(ctx):
    P = ctx.prog
    b = ctx.body("<simulation::ModelFuture as std::future::Future>::poll")
    if not b:
        return
    polls = [s for s in b.calls("std::future::Future::poll$")]
    sets = [s for s in b.calls(LK_SET) if _is_cur(b, s)]
    if not polls or len(sets) < 2:
        return ctx.missing("ModelFuture::poll: inner poll and two CURRENT_MODEL_ID.set calls")
    p = polls[0]
    before = [s for s in sets if b.dominates(s, p)]
    after = [s for s in sets if b.dominates(p, s)]
    ok = bool(before) and all(
        b.origins(s.args()[1], s) and all(origin_proj_names(o)[1][-1:] == [("f", "id")] for o in b.origins(s.args()[1], s)) for s in before)
    ctx.ob("id-set-before-poll", ok, "CURRENT_MODEL_ID.set(self.id) must dominate the poll of the model future", before or [p])
    ok = bool(after) and all(b.postdominates(s, p) for s in after) and all(
        any(x[0] == "call" and x[2] == "simulation::ModelId::none" for x in b.origins(s.args()[1], s)) for s in after)
    ctx.ob("id-reset-after-poll", ok, "CURRENT_MODEL_ID.set(ModelId::none()) must follow the poll on every normal path", after or [p])
    # no reset on the unwind path: the id must survive the panic
    cleanup_sets = [s for s in b.calls(LK_SET, include_cleanup=True) if b.blocks[s.b]["cleanup"]]
    ctx.ob("no-reset-on-unwind", not cleanup_sets, "the model id must not be reset in cleanup (unwind) blocks: it identifies the panicking model", cleanup_sets or [p])
    # no drop guard that would reset it either: no local with a Drop-impl type of this crate created before the poll
    # (a scoped-TLS style guard). Check: no `drop` terminator in cleanup blocks on a local whose type is a crate-local ADT.
    guards = []
    for blk_i, blk in enumerate(b.blocks):
        t = blk["term"]
        if blk["cleanup"] and t["t"] == "drop":
            head = norm(t.get("head", ""))
            if head in P.adts and P.adts[head]["impls"].get("Drop"):
                guards.append(Site(b, blk_i, TERM))
    ctx.ob("no-drop-guard-on-unwind", not guards, "no crate-local drop guard may run on the unwind path of ModelFuture::poll", guards or [p])
    # executors: take() on the panic path
    n = 0
    for eb in P.find(r"^executor::(st_executor|mt_executor)::"):
        for s in eb.calls(LK_TAKE):
            if not _is_cur(eb, s):
                continue
            n += 1
            conds = eb.conditions(s)
            ok = any(c.kind == "variant" and c.data[1] == {"Err"} and not c.data[2] for c in conds)
            ctx.ob("take-on-panic|%s" % K.owner_fn(P, eb).name, ok,
                   "the executor reads CURRENT_MODEL_ID.take() on the Err(payload) side of catch_unwind", [s])
            # the taken id goes into ExecutorError::Panic
            pan = [a for a in eb.aggregates(adt="executor::ExecutorError", variant="Panic")]
            ok = any(eb.origins(a.node["r"]["ops"][0], a) == frozenset([("call", s.b, LK_TAKE)]) for a in pan)
            regs = [r for r in eb.calls(r"PoolManager::register_panic$")
                    if eb.origins(r.args()[1], r) == frozenset([("call", s.b, LK_TAKE)])]
            ctx.ob("taken-id-reported|%s" % K.owner_fn(P, eb).name, ok or bool(regs),
                   "the id taken from CURRENT_MODEL_ID goes into ExecutorError::Panic (directly or via PoolManager::register_panic)", pan or regs or [s])
    # multi-threaded executor: Panic(model_id, payload) is rebuilt from PoolManager::take_panic()
    for eb in P.find(r"^executor::(st_executor|mt_executor)::"):
        for a in eb.aggregates(adt="executor::ExecutorError", variant="Panic"):
            o = eb.origins(a.node["r"]["ops"][0], a)
            ok = all((x[0] == "call" and x[2] == LK_TAKE) or
                     (origin_proj_names(x)[0][0] == "call" and origin_proj_names(x)[0][2].endswith("PoolManager::take_panic")) for x in o) and bool(o)
            ctx.ob("panic-id-source|%s" % K.owner_fn(P, eb).name, ok,
                   "the model id of ExecutorError::Panic comes from CURRENT_MODEL_ID.take() or the registered panic", [a])
    ctx.ob("floor|executor-takes", n >= 2, "expected CURRENT_MODEL_ID.take() in both executors (found %d)" % n)
    # nobody else writes the id
    others = []
    for ob in P.all_bodies():
        for s in list(ob.calls(LK_SET)) + list(ob.calls(r"std::thread::LocalKey::(replace|with|with_borrow_mut)$")):
            if _is_cur(ob, s) and ob is not b:
                others.append(s)
    ctx.ob("only-modelfuture-sets", not others, "only ModelFuture::poll may set CURRENT_MODEL_ID", others or sets)


def rule_f(ctx):
    P = ctx.prog
    b = ctx.body("simulation::add_model")
    if not b:
        return
    news = list(b.calls("simulation::ModelId::new$"))
    if not news:
        return ctx.missing("ModelId::new in simulation::add_model")
    for s in news:
        o = b.origins(s.args()[0], s)
        lens = [Site(b, x[1], TERM) for x in o if x[0] == "call" and x[2] == "std::vec::Vec::len"]
        ok = len(lens) == len(o) == 1
        vec_or = b.origins(lens[0].args()[0], lens[0]) if ok else frozenset()
        pushes = [p for p in b.calls("std::vec::Vec::push$") if b.origins(p.args()[0], p) == vec_or]
        ok = ok and len(pushes) == 1 and b.dominates(lens[0], pushes[0]) and not b.in_loop(pushes[0])
        # the pushed value is the model's name (same value that reaches Context::new modulo clone)
        ctx.ob("id-is-index-of-name", ok,
               "ModelId must be model_names.len() read before the single push(name) on the same vector", [s] + pushes)
        if ok:
            # nothing that can register other models (anything reaching the same vector) may run between len() and push()
            tainted_roots = set(vec_or)
            between = []
            for c in b.calls():
                if c.key() in (lens[0].key(), pushes[0].key()):
                    continue
                if not (b.can_reach(lens[0], c) and b.can_reach(c, pushes[0])):
                    continue
                for a in c.args():
                    ao = b.origins(a, c)
                    hit = any(x in tainted_roots for x in ao)
                    # values built from the vector (e.g. a BuildContext holding &mut model_names)
                    for x in ao:
                        for cc in origin_calls(x):
                            cs2 = Site(b, cc[1], TERM)
                            dty = cs2.node.get("dty", "")
                            if not ("&" in dty or "<'" in dty):
                                continue  # a plain value (e.g. the length) cannot alias the table
                            if any(y in tainted_roots for a2 in cs2.args() for y in b.origins(a2, cs2)):
                                hit = True
                    if hit:
                        between.append(c)
            ctx.ob("no-registration-between-len-and-push", not between,
                   "no call that can reach the model-name table (e.g. building sub-models) may occur between reading the index and pushing the name", between or [lens[0], pushes[0]])
        if ok:
            name_or = b.origins(pushes[0].args()[1], pushes[0])
            cxs = list(b.calls("model::context::Context::new$"))
            ok2 = bool(cxs) and all(b.origins(c.args()[0], c) == name_or for c in cxs)
            ctx.ob("same-name-in-context", ok2, "the name pushed into model_names is the name given to the model's Context", cxs or pushes)
            mf = list(b.calls("simulation::ModelFuture::new$"))
            ok3 = bool(mf) and all(b.origins(m.args()[1], m) == frozenset([("call", s.b, "simulation::ModelId::new")]) for m in mf)
            ctx.ob("id-reaches-modelfuture", ok3, "the ModelFuture is created with that ModelId", mf or [s])


UOT = "util::unwrap_or_throw::UnwrapOrThrow::unwrap_or_throw"


def rule_g(ctx):
    P = ctx.prog
    groups = {
        "ports::output::Output::send": 1,
        "ports::output::Requestor::send": 1,
        "ports::output::UniRequestor::send": 1,
        "ports::source::EventSource::event": 1,
        "ports::source::EventSource::keyed_event": 1,
        "ports::source::EventSource::periodic_event": 1,
        "ports::source::EventSource::keyed_periodic_event": 1,
        "ports::source::QuerySource::query": 1,
    }
    total = 0
    for root, floor in groups.items():
        rb = P.body(root)
        if rb is None:
            ctx.missing(root)
            continue
        fam = P.family(rb)
        sites = [s for x in fam for s in x.calls(UOT)]
        total += len(sites)
        ok = len(sites) >= floor
        # the value thrown on is the awaited result of a broadcast / send future: its origin is a Poll::Ready payload
        for s in sites:
            o = s.body.origins(s.args()[0], s)
            shape = all(origin_proj_names(x)[1][-2:] == [("d", "Ready"), ("f", "0")] and origin_proj_names(x)[0][0] == "call"
                        and origin_proj_names(x)[0][2] == "std::future::Future::poll" for x in o)
            ok = ok and shape and not s.body.in_loop(s) is None
        ctx.ob("send-error-surfaced|%s" % root, ok,
               "the Result<_, SendError> of the awaited broadcast/send future must go through unwrap_or_throw (NoRecipient)", sites)
    ctx.ob("floor|unwrap_or_throw-sites", total >= 8, "expected >= 8 unwrap_or_throw sites in ports (found %d)" % total)
    # no SendError result silently discarded inside ports::*: every Future::poll whose output is Result<_, SendError>
    # in a ports coroutine flows to unwrap_or_throw, `?`/return, or map_err
    for b in P.find(r"^(<)?ports::"):
        if b.kind != "coroutine":
            continue
        for s in b.calls("std::future::Future::poll$"):
            dty = s.node.get("dty", "")
            if "channel::SendError" not in dty and "ports::output::broadcaster::SendError" not in dty:
                continue
            # uses of the Ready payload
            used = False
            for u in b.calls():
                if u.callee in (UOT, "std::ops::Try::branch", "std::result::Result::map_err", "std::result::Result::map", "std::result::Result::is_ok", "std::result::Result::is_err"):
                    if any(origin_contains(o, lambda t: t == ("call", s.b, "std::future::Future::poll")) for o in b.origins(u.args()[0], u)):
                        used = True
            for r in K.ret_assigns(b):
                if not r.is_term and r.node["r"]["r"] == "use":
                    if any(origin_contains(o, lambda t: t == ("call", s.b, "std::future::Future::poll")) for o in b.origins(r.node["r"]["o"], r)):
                        used = True
            ctx.ob("no-dropped-send-error|%s" % b.name, used,
                   "a Result<_, SendError> awaited inside ports::* must be propagated or thrown, never discarded", [s])


WITNESS = ['c11']  # doctest filters in /verif/witness (thorough tier)

RULES = [
    ("C11.a", "no effect once terminated", rule_a),
    ("C11.b", "fatal errors set the flag; non-fatal do not", rule_b),
    ("C11.c", "ExecutorError -> ExecutionError table", rule_c),
    ("C11.d", "unwrap_or_throw", rule_d),
    ("C11.e", "CURRENT_MODEL_ID bracket and take-on-panic", rule_e),
    ("C11.f", "ModelId = index of the pushed name", rule_f),
    ("C11.g", "SendError surfaced in ports", rule_g),
]


def rule_senders(ctx):
    """NoRecipient can only be reported if the send to the dropped mailbox is actually attempted: every sender produces its send future
    unless its filter returned None (C03.b)."""
    from . import c03
    c03.rule_b(ctx)


RULES.append(("C11.h", "a send is always attempted (the SendError of a dropped mailbox cannot be skipped by a sender)", rule_senders))


def rule_mustpass(ctx):
    from . import mustpass
    mustpass.check(ctx, ['port-send-throws', 'source-send-throws', 'worker-panic-registered', 'worker-panic-wakes-executor', 'mt-run-checks-panic', 'st-run-reports-panic'])


RULES.append(("C11.i", "must-pass-through: no path around the effects this property rests on (added fast paths / early returns)", rule_mustpass))


def rule_commit(ctx):
    from . import mustpass
    for g, floor in [('throw', 8), ('ports', 80)]:
        mustpass.commit_group(ctx, g, floor)


RULES.append(("C11.j", "branch-commit: between the decision to perform an effect and the effect there is no way out", rule_commit))


def rule_deps(ctx):
    from . import c16
    c16.rule_c(ctx)


RULES.append(("C11.k", "sub-models are registered under parent.child (C16.c): the name reported in Panic / NoRecipient is the qualified one", rule_deps))


def rule_scoped_keys(ctx):
    from . import scopedkey
    scopedkey.rules(ctx)


RULES.append(("C11.l", "scoped thread-local keys install, hand out and restore the right pointer: the model id / simulation context a failure is attributed to is the one installed for the running task", rule_scoped_keys))


def rule_timeout_plumbing(ctx):
    """'an overrunning step yields Timeout': the time limit the executor enforces is the one the user configured - the builder's
    value reaches Simulation::new (C18.e), set_timeout stores its argument, every run of the executor from the simulation gets the
    `timeout` field, and the executor front end forwards it unchanged to the executor that is in use."""
    P = ctx.prog
    from . import c18
    c18.rule_e(ctx)
    n = 0
    for b in P.all_bodies():
        if "::tests" in b.name:
            continue
        for s in b.calls(r"^executor::Executor::run$"):
            if not b.name.startswith("simulation::"):
                continue
            n += 1
            o = b.origins(s.args()[1], s)
            ok = bool(o) and all(origin_proj_names(x) == (("arg", 1), [("f", "timeout")]) for x in o)
            ctx.ob("timeout|run-gets-configured-limit|%s" % b.name, ok, "the executor is run with the simulation's `timeout` field", [s])
    ctx.ob("floor|timeout-run-sites", n >= 1, "expected >= 1 executor run site in the simulation front end (found %d)" % n)
    fe = ctx.body("executor::Executor::run")
    if fe is not None:
        fw = list(fe.calls(r"^executor::(st|mt)_executor::Executor::run$"))
        ok = len(fw) == 2 and all(fe.origins(s.args()[1], s) == frozenset([("arg", 2)]) for s in fw)
        ctx.ob("timeout|front-end-forwards-limit", ok, "Executor::run forwards its timeout argument unchanged to the single- and the multi-threaded executor", fw)
    st = ctx.body("simulation::Simulation::set_timeout")
    if st is not None:
        ws = [a for a in st.assigns() if a.node["p"]["l"] == 1 and any(isinstance(x, list) and x[0] == "f" and x[2] == "timeout" for x in a.node["p"]["p"])]
        ok = len(ws) == 1 and ws[0].node["r"]["r"] == "use" and st.origins(ws[0].node["r"]["o"], ws[0]) == frozenset([("arg", 2)]) and not st.conditions(ws[0])
        ctx.ob("timeout|setter-stores-argument", ok, "Simulation::set_timeout stores its argument into the `timeout` field, unconditionally", ws or [st.loc()])


RULES.append(("C11.m", "the time limit enforced on a step is the configured one (builder -> Simulation -> executor)", rule_timeout_plumbing))
