"""C14 Query replies: one per replier, matched, ordered; port clones share links — clauses a..e."""
from ..core import Site, TERM, norm, origin_calls, origin_proj_names, last_seg, Cond, origin_contains
from . import common as K
from . import bcast
from .. import atomics
from ..masks import const_eval_set

EXPLANATION = (
    "Decides: (a) in both BroadcastFuture::poll loops the sub-future, its reply slot and its waker are selected by the "
    "same task index; (b) the pending counter is decremented by one only in the Ready(Ok) arm of the poll just made, the "
    "broadcast resolves Ok only at count zero, fails only on a sub-error, returns Pending only when nothing is scheduled "
    "and after (re-)registering the task's waker, and a completed reply slot is not polled again; (c) reply order and "
    "count: the fan-out iterates the whole connection list in order, keeps one future per accepting connection, and the "
    "query broadcaster yields outputs.iter_mut().take(number of accepted connections) (0 / 1 / futures.len()); the source "
    "side yields its future states in order; (d) clones of a port share links: CachedRwLock::write takes the mutex before "
    "touching the shared epoch and stores shared_epoch + 1; write_scratchpad re-clones the shared value under the mutex "
    "whenever the epochs differ and then adopts the shared epoch (read under the mutex); connect* methods use write(), "
    "send uses write_scratchpad(), the *_unsync mutable accessor is unused, Clone is derived (shares the Arc); (e) the "
    "release/acquire floors of the TaskSet stack. NOT decided: reply matching under arbitrary completion orders and "
    "spurious wake-ups at run time."
)
TRUSTED = K.TRUSTED

CRW = "util::cached_rw_lock::CachedRwLock::"
ATOM = "std::sync::atomic::Atomic::"


def rule_a(ctx):
    for w in ("output", "source"):
        bcast.poll_rules(ctx, w)
    bcast.output_slot_rules(ctx)


def rule_c(ctx):
    P = ctx.prog
    for m in ("output", "source"):
        bcast.fanout_rules(ctx, m)
    qb = P.body("ports::output::broadcaster::QueryBroadcaster::broadcast::{closure#0}")
    if qb is None:
        return ctx.missing("QueryBroadcaster::broadcast coroutine")
    takes = list(qb.calls("^std::iter::Iterator::take$"))
    oks = [r for r in K.ret_assigns(qb) if K.result_variant_of_ret(r) == "Ok"]
    ok = len(takes) == 1 and bool(oks)
    if ok:
        t = takes[0]
        src = qb.origins(t.args()[0], t)
        ok = K.flows_from(qb, src, lambda x: x[0] == "proj" and x[2] == ("f", "outputs")) and K.has_call(src, lambda c: c.endswith("iter_mut"))
        for r in oks:
            ok = ok and K.flows_from(qb, qb.origins(r.node["r"]["ops"][0], r), lambda x: x == ("call", t.b, t.callee))
        # the count: 0, 1 or the number of futures returned by the fan-out
        co = qb.origins(t.args()[1], t)
        good = bool(co)
        for o in co:
            if o[0] == "const" and o[1] in (0, 1):
                continue
            if o[0] == "call" and o[2] == "std::vec::Vec::len":
                ls = Site(qb, o[1], TERM)
                lo = qb.origins(ls.args()[0], ls)
                if K.flows_from(qb, lo, lambda x: x[0] == "call" and x[2].endswith("BroadcasterInner::futures")):
                    continue
            good = False
        ok = ok and good
    ctx.ob("query|yields-first-count-slots", ok,
           "the reply iterator yields exactly the first `count` slots, count = number of connections that accepted the request "
           "(stale replies of earlier, larger broadcasts must not leak)", takes + oks)
    # count 1 only when the single sender accepted; slot 0 written with its reply
    # source side: ReplyIterator over future_states in order
    sp = P.body(bcast.POLLS["source"])
    if sp is not None:
        its = [i for i in sp.calls(r"into_iter$") if "Vec<ports::source::broadcaster::SenderFutureState" in (i.node.get("argtys") or [""])[0]]
        ok = len(its) == 2 and all(any(x[2] == "std::mem::take" for o in sp.origins(i.args()[0], i) for x in origin_calls(o)) for i in its)
        ctx.ob("source|replies-in-connection-order", ok, "the source-side reply iterator consumes the vector of future states front to back", its)


def _epoch_sites(b, op, shared=True):
    out = []
    for s in b.calls("^" + ATOM + op + "$"):
        o = b.origins(s.args()[0], s)
        if any(origin_proj_names(x)[1][-2:] == [("f", "shared"), ("f", "epoch")] for x in o):
            out.append(s)
    return out


def rule_d(ctx):
    P = ctx.prog
    w = ctx.body(CRW + "write")
    ws = ctx.body(CRW + "write_scratchpad")
    if not w or not ws:
        return
    locks = list(w.calls("^std::sync::Mutex::lock$"))
    ld = _epoch_sites(w, "load")
    st = _epoch_sites(w, "store")
    rmw = [s for s in w.calls("^" + ATOM + r"(fetch_add|fetch_sub|swap|compare_exchange|fetch_update)$")]
    ok = len(locks) == 1 and len(ld) == 1 and len(st) == 1 and not rmw
    ctx.ob("write|sites", ok, "write = one lock, one load and one store of the shared epoch", locks + ld + st + rmw)
    if ok:
        ctx.ob("write|epoch-bumped-under-lock", w.dominates(locks[0], ld[0]) and w.dominates(ld[0], st[0]) and not w.conditions(st[0]),
               "the shared epoch is read and bumped only after the mutex has been taken (a concurrent refresh cannot pair the old "
               "list with the new epoch)", [locks[0], ld[0], st[0]])
        vo = w.origins(st[0].args()[1], st[0])
        good = False
        for o in vo:
            rt, _ = origin_proj_names(o)
            if rt[0] == "bin" and rt[1].startswith("Add") and rt[2] == ("call", ld[0].b, ld[0].callee) and const_eval_set(frozenset([rt[3]])) == 1:
                good = True
        ctx.ob("write|new-epoch-is-shared-plus-one", good,
               "the new epoch is the *shared* epoch + 1 (not a clone's cached epoch: two clones must never publish the same epoch for "
               "different lists)", [st[0]])
        # the guard returned wraps the lock taken
        aggs = list(w.aggregates(adt="util::cached_rw_lock::CachedRwLockWriteGuard"))
        ok2 = bool(aggs) and all(K.flows_from(w, w.origins(a.node["r"]["ops"][0], a), lambda x: x == ("call", locks[0].b, locks[0].callee)) for a in aggs)
        ctx.ob("write|returns-the-held-guard", ok2, "the caller mutates the shared value through the guard taken before the epoch bump", aggs)
    # write_scratchpad
    locks = list(ws.calls("^std::sync::Mutex::lock$"))
    ld = sorted(_epoch_sites(ws, "load"), key=lambda s: ws.rpo_index.get(s.b, 0))
    ok = len(locks) == 1 and len(ld) == 2
    ctx.ob("scratchpad|sites", ok, "write_scratchpad = one staleness test, one lock, one epoch re-read", locks + ld)
    if ok:
        l0, l1, lk = ld[0], ld[1], locks[0]
        # staleness test: lock taken iff shared epoch != cached epoch
        good = False
        for c in ws.conditions(lk):
            if c.kind == "cmp" and c.data[0] == "!=":
                sides = c.data[1] | c.data[2]
                if ("call", l0.b, l0.callee) in sides and any(origin_proj_names(o)[1][-1:] == [("f", "epoch")] and origin_proj_names(o)[0] == ("arg", 1) for o in sides):
                    good = True
        ctx.ob("scratchpad|refresh-iff-epochs-differ", good, "the cached list is refreshed exactly when the shared epoch differs from the cached one", [lk])
        # under the lock: value = shared.clone(); epoch = load(shared.epoch)
        cl = [s for s in ws.calls("^std::clone::Clone::clone$") if ws.dominates(lk, s)]
        vals = [s for s in ws.assigns() if s.node["p"]["p"] and s.node["p"]["p"][-1] != "*" and s.node["p"]["p"][-1][2] == "value"]
        eps = [s for s in ws.assigns() if s.node["p"]["p"] and s.node["p"]["p"][-1] != "*" and s.node["p"]["p"][-1][2] == "epoch"]
        ok_v = bool(vals) and all(any(c.kind == "variant" and c.data[1] == {"Ok"} for c in ws.conditions(v)) and
                                   K.flows_from(ws, ws.origins(v.node["r"]["o"], v, through_clone=False) if v.node["r"]["r"] == "use" else frozenset(),
                                                lambda x: x[0] == "call" and x[2] == "std::clone::Clone::clone") for v in vals)
        ctx.ob("scratchpad|reclone-under-lock", ok_v and bool(cl), "the cached value is replaced by a clone of the shared value taken under the mutex", vals + cl)
        ok_e = len(eps) == 1 and ws.dominates(lk, l1) and ws.origins(eps[0].node["r"]["o"], eps[0]) == frozenset([("call", l1.b, l1.callee)]) and \
            any(c.kind == "variant" and c.data[1] == {"Ok"} for c in ws.conditions(eps[0]))
        # the guard is still held when the epoch is re-read
        guards = [i for i, l in enumerate(ws.locals) if l["ty"].startswith("std::sync::MutexGuard<")]
        held = False
        for g in guards:
            gens = ws.all_defs(g)
            if gens and ws.must_hold(gens, K.guard_kill(ws, g), l1):
                held = True
        ctx.ob("scratchpad|adopts-epoch-read-under-lock", ok_e and held,
               "the cached epoch becomes the shared epoch as read while the mutex is still held (the epoch always describes the cloned list)", eps + [l1])
    # users
    n_w = n_s = 0
    for b in P.all_bodies():
        if not b.name.startswith("ports::output::"):
            continue
        for s in b.calls(lambda c: c == CRW + "write"):
            n_w += 1
            ok = "connect" in K.owner_fn(P, b).name
            ctx.ob("users|write-from-connect|%s" % K.owner_fn(P, b).name, ok, "the shared list is modified only by the connect methods", [s])
        for s in b.calls(lambda c: c == CRW + "write_scratchpad"):
            n_s += 1
            ok = K.owner_fn(P, b).name.endswith("::send")
            ctx.ob("users|scratchpad-from-send|%s" % K.owner_fn(P, b).name, ok, "send() synchronises its cached list through write_scratchpad()", [s])
    ctx.ob("floor|connect-sites", n_w >= 9, "expected >= 9 connect sites using write() (found %d)" % n_w)
    ctx.ob("floor|send-sites", n_s >= 2, "expected >= 2 send sites using write_scratchpad() (found %d)" % n_s)
    uns = P.callers_of(lambda c: c == CRW + "write_scratchpad_unsync")
    ctx.ob("users|no-unsync-mutation", not uns, "nobody mutates the cached copy without synchronising", [s for _, s in uns])
    # every connect method of Output / Requestor / UniRequestor goes through write()
    for b in P.all_bodies():
        if b.impl_self in ("ports::output::Output", "ports::output::Requestor") and "connect" in last_seg(b.name) and b.kind == "AssocFn":
            ok = any(True for _ in b.calls(lambda c: c == CRW + "write"))
            ctx.ob("users|connect-uses-write|%s" % b.name, ok, "each connect method registers the link in the shared list", [b.loc()])
    cl = [i for i in P.impls if norm(i["self_head"]) == "util::cached_rw_lock::CachedRwLock" and i.get("trait") and norm(i["trait"]) == "std::clone::Clone"]
    ctx.ob("clone-derived-shares-arc", len(cl) == 1 and cl[0]["exp"], "CachedRwLock's Clone is derived: clones share the Arc<Shared>", ["impl Clone %s:%s" % (i["file"], i["line"]) for i in cl])
    a = P.adts.get("util::cached_rw_lock::CachedRwLock")
    if a:
        f = {x["name"]: x["ty"] for x in a["variants"][0]["fields"]}
        ctx.ob("shared-is-arc", f.get("shared", "").startswith("std::sync::Arc<"), "the shared state is behind an Arc", ["adt CachedRwLock"])
    for port in ("ports::output::Output", "ports::output::Requestor"):
        pa = P.adts.get(port)
        if pa:
            tys = [x["ty"] for x in pa["variants"][0]["fields"]]
            ctx.ob("port-holds-cached-lock|%s" % port, any("cached_rw_lock::CachedRwLock<" in t for t in tys), "%s keeps its connections in a CachedRwLock" % port, ["adt " + port])


def rule_e(ctx):
    K.check_floors(ctx, "C14")


def rule_f(ctx):
    from . import c03
    c03.rule_b(ctx)

TS = "util::task_set::"


def _taskset_words(ctx):
    """operand-level clauses of the packed head word of the TaskSet: low 32 bits = index of the first scheduled task (or EMPTY /
    SLEEPING), high 32 bits = notification countdown"""
    from ..masks import mask_cmp, const_eval
    P = ctx.prog
    it = lambda n: (P.items.get(TS + n) or {}).get("v")
    EMPTY, IMASK, CONE, CMASK = it("EMPTY"), it("INDEX_MASK"), it("COUNTDOWN_ONE"), it("COUNTDOWN_MASK")
    if None in (EMPTY, IMASK, CONE, CMASK):
        return ctx.missing("TaskSet constants")
    M = (1 << 64) - 1
    ctx.ob("taskset|word-layout", IMASK == (1 << 32) - 1 and CMASK == (~IMASK) & M and CONE == IMASK + 1 and EMPTY < IMASK and (EMPTY & IMASK) == EMPTY,
           "index field = low 32 bits, countdown field = the remaining high bits, COUNTDOWN_ONE = lowest countdown bit, EMPTY fits the index field",
           ["const " + TS + n for n in ("EMPTY", "INDEX_MASK", "COUNTDOWN_ONE", "COUNTDOWN_MASK")])
    b = ctx.body(TS + "TaskSet::take_scheduled")
    if b is None:
        return
    cas = [s for s in b.calls("^" + ATOM + "compare_exchange_weak$") if atomics.receiver_field(b, s) == "head"]
    if len(cas) != 1:
        return ctx.missing("the CAS on head in take_scheduled")
    cas = cas[0]

    def is_head(x):
        xs = x[1] if isinstance(x, tuple) and x and x[0] == "multi" else (x,)
        return all(isinstance(o, tuple) and (o[0] == "call" and o[2].endswith("Atomic::load") or
                                            (origin_proj_names(o)[0] == ("call", cas.b, cas.callee))) for o in xs)
    masked_tests, raw_tests = [], []
    for x in sorted(b.live_blocks):
        if b.blocks[x]["term"]["t"] != "switch":
            continue
        for y in b.succ[x]:
            c = Cond(b, x, y)
            if c.kind != "cmp":
                continue
            mc = mask_cmp(c)
            if mc and is_head(mc[1]):
                masked_tests.append((c, mc))
            elif not mc:
                for side, other in ((c.data[1], c.data[2]), (c.data[2], c.data[1])):
                    if side and all(is_head(o) for o in side) and other and all(const_eval(o) is not None for o in other):
                        raw_tests.append(c)
    ok = bool(masked_tests) and all(mc[2] == IMASK and mc[3] == EMPTY for _, mc in masked_tests) and not raw_tests
    ctx.ob("taskset|take|emptiness-tests-the-index-field", ok,
           "take_scheduled tests `head & INDEX_MASK` against EMPTY (never the whole word: the countdown lives in the high bits, so a raw "
           "comparison misses an empty list with a pending notification request)", [c.site for c, _ in masked_tests] + [c.site for c in raw_tests] or [cas])
    nv = b.origins(cas.args()[2], cas)
    arm, disarm = False, False
    for o in nv:
        if const_eval(o) == EMPTY:
            disarm = True
        elif isinstance(o, tuple) and o[0] == "bin" and o[1] == "BitOr":
            for x, y in ((o[2], o[3]), (o[3], o[2])):
                rt, _ = origin_proj_names(x)
                if const_eval(y) == EMPTY and isinstance(rt, tuple) and rt[0] == "bin" and rt[1].startswith("Mul") and \
                        (const_eval(rt[3]) == CONE or const_eval(rt[2]) == CONE):
                    arm = True
    ctx.ob("taskset|take|new-head-values", arm and disarm and len(nv) == 2,
           "the head is replaced by (countdown * COUNTDOWN_ONE) | EMPTY when the list is empty (arm the notification) and by EMPTY otherwise "
           "(take the list)", [cas])


def rule_g(ctx):
    """TaskSet: a sub-task's index is its position; the parent is notified when the countdown expires; iteration yields live indices only"""
    P = ctx.prog
    _taskset_words(ctx)
    # the active-task count of the set is the number of sub-futures of this broadcast (stale wake-ups of sub-tasks left over from an
    # earlier, larger broadcast are filtered by `index < task_count`)
    nb = P.body("ports::output::broadcaster::BroadcastFuture::new")
    if nb is None:
        ctx.missing("ports::output::broadcaster::BroadcastFuture::new")
    else:
        rs = list(nb.calls(r"task_set::TaskSet::resize$"))
        aggs = list(nb.aggregates(adt="ports::output::broadcaster::BroadcastFuture"))
        ok = len(rs) == 1 and len(aggs) == 1
        if ok:
            fo = dict(zip(aggs[0].node["r"]["fields"], aggs[0].node["r"]["ops"]))
            cnt = nb.origins(fo["pending_futures_count"], aggs[0]) if "pending_futures_count" in fo else frozenset()
            ro = nb.origins(rs[0].args()[1], rs[0])
            ok = bool(cnt) and ro == cnt and all(o[0] == "call" and o[2].endswith("::len") for o in cnt)
            if ok:
                ls = Site(nb, next(iter(cnt))[1], TERM)
                ok = nb.origins(ls.args()[0], ls) == nb.origins(fo["futures"], aggs[0])
        ctx.ob("taskset|resized-to-number-of-subfutures", ok,
               "TaskSet::resize gets futures.len(), the same value as pending_futures_count", rs + aggs)
    w = ctx.body("<util::task_set::Task as futures_task::ArcWake>::wake_by_ref")
    if w:
        nt = list(w.calls(r"^diatomic_waker::WakeSource::notify$"))
        cas = [s for s in w.calls("^" + ATOM + "compare_exchange_weak$") if atomics.receiver_field(w, s) == "head"]
        ok = len(nt) == 1 and len(cas) == 1
        if ok:
            conds = w.conditions(nt[0])
            on_ok = any(c.kind == "variant" and c.data[1] == {"Ok"} and not c.data[2] and c.data[0] == frozenset([("call", cas[0].b, cas[0].callee)]) for c in conds)
            cd = False
            for c in conds:
                if c.kind == "cmp" and c.data[0] == "==":
                    sides = c.data[1] | c.data[2]
                    if any(x[0] == "const" and str(x[2]).endswith("COUNTDOWN_ONE") for x in sides) and any(x[0] == "bin" and x[1] == "BitAnd" for x in sides):
                        cd = True
            ok = on_ok and cd
        ctx.ob("taskset|notify-when-countdown-expires", ok,
               "the parent task is notified exactly by the wake-up that brings the countdown from one to zero, after its head CAS succeeded", nt + cas)
        if len(cas) == 1:
            no = w.origins(cas[0].args()[2], cas[0])
            ok = any(K.flows_from(w, frozenset([x]), lambda t: t[0] == "proj" and t[2] == ("f", "idx")) for x in no)
            ctx.ob("taskset|pushed-index-is-own-idx", ok, "a woken sub-task pushes its own index onto the scheduled stack", cas)
    it = ctx.body("<util::task_set::TaskIterator as std::iter::Iterator>::next")
    if it:
        somes = [r for r in K.ret_assigns(it) if not r.is_term and r.node["r"]["r"] == "agg" and r.node["r"].get("variant") == "Some"]
        ok = len(somes) == 1
        if ok:
            conds = it.conditions(somes[0])
            lt = False
            for c in conds:
                if c.kind == "cmp" and c.data[0] in ("<",):
                    if any(origin_proj_names(x)[1][-1:] == [("f", "task_count")] for x in c.data[2]):
                        lt = True
                if c.kind == "cmp" and c.data[0] in (">",):
                    if any(origin_proj_names(x)[1][-1:] == [("f", "task_count")] for x in c.data[1]):
                        lt = True
            ok = lt
        ctx.ob("taskset|yields-only-live-indices", ok, "the scheduled-task iterator yields an index only if it is below the current task count", somes)
        sw = [s for s in it.calls("^" + ATOM + "swap$")]
        ok = len(sw) == 1 and any(x[0] == "const" and str(x[2]).endswith("SLEEPING") for x in it.origins(sw[0].args()[1], sw[0]))
        ctx.ob("taskset|taken-task-put-to-sleep", ok, "a task taken from the scheduled stack is marked sleeping (so that its next wake-up re-schedules it)", sw)
    itd = ctx.body("<util::task_set::TaskIterator as std::ops::Drop>::drop")
    if itd:
        sts = [s for s in itd.calls("^" + ATOM + "(store|swap)$") if atomics.receiver_field(itd, s) == "next"]
        lds = [s for s in itd.calls("^" + ATOM + "(load|swap)$") if atomics.receiver_field(itd, s) == "next"]
        ok = len(sts) == 1 and len(lds) == 1 and itd.in_loop(sts[0]) and \
            any(x[0] == "const" and str(x[2]).endswith("SLEEPING") for x in itd.origins(sts[0].args()[1], sts[0])) and \
            len(itd.origins(sts[0].args()[1], sts[0])) == 1
        if ok and sts[0] != lds[0]:
            ok = itd.dominates(lds[0], sts[0])  # the link is read before it is overwritten
        # the loop runs until the end-of-list marker
        if ok:
            lp = itd.innermost_loop(sts[0])
            ok = lp is not None
        ctx.ob("taskset|discarded-tasks-put-to-sleep", ok,
               "every scheduled task that the iterator discards is marked sleeping (any other marker reads as 'already scheduled': its next wake-up would be swallowed), its link read first", sts + lds)
    rz = ctx.body(TS + "TaskSet::resize")
    if rz:
        aggs = list(rz.aggregates(adt=TS + "Task"))
        ok = len(aggs) == 1
        if ok:
            fo = dict(zip(aggs[0].node["r"]["fields"], aggs[0].node["r"]["ops"]))
            io = rz.origins(fo["idx"], aggs[0])
            ok = bool(io) and all(x[0] == "call" and x[2] == "std::vec::Vec::len" for x in io)
            nx = rz.origins(fo["next"], aggs[0])
        ctx.ob("taskset|task-idx-is-position", ok, "a new sub-task's index is its position in the task vector", aggs)
    wk = ctx.body(TS + "TaskSet::waker_of")
    if wk:
        ix = [s for s in wk.calls(r"^std::ops::Index::index$")]
        ok = len(ix) == 1 and wk.origins(ix[0].args()[1], ix[0]) == frozenset([("arg", 2)])
        ctx.ob("taskset|waker-of-idx", ok, "waker_of(idx) hands out the waker of tasks[idx]", ix)


RULES = [
    ("C14.g", "TaskSet index / notification discipline", rule_g),
    ("C14.f", "every replier connection sends the mapped request once and returns the reply of that replier", rule_f),
    ("C14.a", "BroadcastFuture::poll: index agreement, counter, completion, waker registration", rule_a),
    ("C14.c", "reply order and count", rule_c),
    ("C14.d", "port clones share links (CachedRwLock protocol)", rule_d),
    ("C14.e", "ordering floors of the TaskSet", rule_e),
]


def rule_inventory(ctx):
    from . import inventory
    inventory.check(ctx, ['task-set-take', 'file:task_set'])
    inventory.check_narrowing(ctx)


RULES.append(("C14.h", "state-mutation inventory: no new site that changes the content of the state this property rests on", rule_inventory))



def rule_awaits(ctx):
    from . import inventory
    inventory.check_awaits(ctx, ['nexosim/src/ports/output/broadcaster.rs', 'nexosim/src/ports/source/broadcaster.rs', 'nexosim/src/ports/output.rs', 'nexosim/src/ports/source.rs', 'nexosim/src/ports/output/sender.rs', 'nexosim/src/ports/source/sender.rs'])


RULES.append(("C14.i", "await inventory: only futures whose completion rule is covered are polled on the delivery path", rule_awaits))


def rule_mustpass(ctx):
    from . import mustpass
    mustpass.check(ctx, ['requestor-send-broadcasts', 'output-broadcast-polls', 'source-broadcast-polls', 'connect-registers', 'cached-write-bumps-epoch', 'scratchpad-refreshes-when-behind', 'scratchpad-copies-shared-value'])


RULES.append(("C14.j", "must-pass-through: no path around the effects this property rests on (added fast paths / early returns)", rule_mustpass))


def rule_commit(ctx):
    from . import mustpass
    for spec in [('ports', 80), ('lockfree', 13, r'^channel::queue::|^util::(slot|task_set|cached_rw_lock)::')]:
        mustpass.commit_group(ctx, *spec)


RULES.append(("C14.k", "branch-commit: between the decision to perform an effect and the effect there is no way out", rule_commit))


def rule_slot(ctx):
    from . import slotproto
    slotproto.rules(ctx)


RULES.append(("C14.l", "reply slot of driver-side queries: a reply is handed over exactly when POPULATED is seen; the writer fails exactly when the reader is gone", rule_slot))
