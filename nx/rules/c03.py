"""C03 Exactly-once delivery to every connected recipient — structural clauses a..f."""
from ..core import Site, TERM, norm, origin_calls, origin_proj_names, last_seg, Cond, origin_contains
from . import common as K
from . import bcast, c02, c05, c06, c07, c12, c14

EXPLANATION = (
    "Decides: (a) a message closure is consumed at most once (Option::take().unwrap() in MessageFnOnce::call_once and in the "
    "push predicate) and put back when the queue is full; (b) every implementation of the two Sender traits (floor 9 + 6): "
    "model-targeting senders have exactly one channel send site, outside loops, inside the returned future; filter variants "
    "return None exactly when the filter closure returned None; sink senders write once; (c) the fan-out loops iterate the "
    "whole connection list, send once per connection and keep one future per accepting connection; the 0/1/n arms of the "
    "event broadcast each await every kept future; a broadcast resolves only when all sub-sends completed; (d) the receiver "
    "invokes each popped closure exactly once and awaits its future to completion before returning; (e) the in-flight "
    "counter is +1 per successful push and -1 per pop (C06.a); (f) same-key scheduled events chained in a SeqFuture are each "
    "polled to completion exactly once (C07.c); clones of a port use the shared, current connection list (C14.d). NOT "
    "decided: absence of loss/duplication in the blocked-sender wake-up protocol on all interleavings."
)
TRUSTED = K.TRUSTED

CH_SEND = "channel::Sender::send"


def rule_a(ctx):
    P = ctx.prog
    b = ctx.body("<channel::MessageFnOnce as channel::MessageFn>::call_once")
    if b:
        tk = list(b.calls("^std::option::Option::take$"))
        uw = list(b.calls("^std::option::Option::unwrap$"))
        co = list(b.calls("^std::ops::FnOnce::call_once$"))
        ok = len(tk) == 1 and len(uw) == 1 and len(co) == 1 and b.origins(tk[0].args()[0], tk[0]) == frozenset([("proj", ("arg", 1), ("f", "msg_fn"))]) and \
            b.origins(co[0].args()[0], co[0]) == frozenset([("call", tk[0].b, tk[0].callee)]) and not b.in_loop(co[0])
        ctx.ob("call-once-takes", ok, "the message closure is taken out of its Option and called once (a second call panics instead of re-delivering)", tk + co)
    c02.rule_a(ctx)


def _sender_impls(P, module):
    tr = "ports::%s::sender::Sender" % module
    out = {}
    for b in P.all_bodies():
        if b.name.startswith("<ports::%s::sender::" % module) and (" as " + tr + ">::") in b.name:
            ty = b.name.split(" as ")[0][1:]
            out.setdefault(ty, []).append(b)
    return out


def rule_b(ctx):
    P = ctx.prog
    from . import inventory, mustpass
    inventory.check_awaits(ctx, ["nexosim/src/ports/output/sender.rs", "nexosim/src/ports/source/sender.rs"])
    mustpass.check(ctx, ["senders-create-channel-send", "senders-await-channel-send"])
    for module, floor in (("output", 9), ("source", 6)):
        impls = _sender_impls(P, module)
        ctx.ob("floor|%s-sender-impls" % module, len(impls) >= floor, "expected >= %d Sender implementations in ports::%s::sender (found %d)" % (floor, module, len(impls)), sorted(impls))
        tr = "ports::%s::sender::Sender" % module
        for ty, bodies in sorted(impls.items()):
            short = last_seg(ty)
            if "EventSink" in short:
                continue  # judged by C17.c
            sends = [s for b in bodies for s in b.calls(lambda c: c == CH_SEND)]
            ok = len(sends) == 1 and not sends[0].body.in_loop(sends[0]) and not sends[0].body.conditions(sends[0])
            ctx.ob("one-channel-send|%s" % ty, ok, "a model-targeting sender enqueues the message exactly once per send, unconditionally inside its future", sends)
            if len(sends) == 1:
                sb = sends[0].body
                ok2 = sb.kind == "coroutine"
                if not ok2:
                    # async fn called directly: its future must be the one wrapped and returned
                    for rf in sb.calls(r"RecycledFuture::new$"):
                        if K.flows_from(sb, sb.origins(rf.args()[1], rf), lambda x: x == ("call", sends[0].b, sends[0].callee)):
                            ok2 = True
                ctx.ob("send-future-returned|%s" % ty, ok2, "the channel send future is (part of) the future handed to the broadcaster, not dropped", sends)
            if "FilterMap" in short:
                send = P.body("<%s as %s>::send" % (ty, tr))
                ok = False
                rets = []
                if send is not None:
                    rets = K.ret_assigns(send)
                    ok = bool(rets)
                    # *every* result of send is the Option::map of the filter's own result (an added `return None` drops the message -
                    # and, for a dropped mailbox, the SendError that becomes NoRecipient)
                    for r in rets:
                        good = False
                        if r.is_term and r.callee == "std::option::Option::map":
                            fo = send.origins(r.args()[0], r)
                            if fo and all(x[0] == "call" and x[2] in ("std::ops::Fn::call", "std::ops::FnMut::call_mut") for x in fo):
                                co = send.origins(r.args()[1], r)
                                if any(x[0] == "agg" and x[3] and sends and sends[0].body.name.startswith(x[3]) for x in co):
                                    good = True
                        ok = ok and good
                ctx.ob("filter-skips-iff-none|%s" % ty, ok, "a filter_map connection sends nothing exactly when the filter returned None (Option::map over the filter result)", rets)
            else:
                send = P.body("<%s as %s>::send" % (ty, tr)) or P.body("<%s as %s>::send_owned" % (ty, tr))
                if send is not None:
                    rets = K.ret_assigns(send)
                    ok = bool(rets) and all((not r.is_term and r.node["r"]["r"] == "agg" and r.node["r"].get("variant") == "Some") or
                                            (r.is_term and (r.callee or "").endswith("send_owned")) for r in rets)
                    ctx.ob("always-sends|%s" % ty, ok, "a plain or mapped connection always produces a send future", rets)


def rule_c(ctx):
    P = ctx.prog
    for m in ("output", "source"):
        bcast.fanout_rules(ctx, m)
    for w in ("output", "source"):
        bcast.poll_rules(ctx, w)
    bcast.output_slot_rules(ctx)
    # EventBroadcaster::broadcast: 0 / 1 / n arms
    eb = P.body("ports::output::broadcaster::EventBroadcaster::broadcast::{closure#0}")
    if eb is None:
        return ctx.missing("EventBroadcaster::broadcast coroutine")
    direct = [s for s in eb.calls(lambda c: c in ("ports::output::sender::Sender::send_owned", "ports::output::sender::Sender::send"))]
    futs = [s for s in eb.calls(r"BroadcasterInner::futures$")]
    bf = [s for s in eb.calls(r"BroadcastFuture::new$")]
    polls = list(eb.calls("^std::future::Future::poll$"))
    ok = len(direct) == 1 and len(futs) == 1 and len(bf) == 1 and len(polls) >= 3
    ctx.ob("event-broadcast|arms", ok, "the event broadcast has a single-connection arm (one direct send) and a multi-connection arm (fan-out + BroadcastFuture)", direct + futs + bf)
    # every future obtained is polled: the direct send's future, the single kept future, the BroadcastFuture
    for src, what in ((direct, "direct send"), (bf, "BroadcastFuture")):
        for s in src:
            used = [p for p in polls if K.flows_from(eb, eb.origins(p.args()[0], p), lambda x, s=s: x == ("call", s.b, s.callee))]
            ctx.ob("event-broadcast|awaited|%s" % what, bool(used), "the future of the %s is awaited" % what, [s] + used)


def rule_d(ctx):
    c05.recv_awaits_handler(ctx)


def rule_e(ctx):
    c06.rule_a(ctx)


def rule_f(ctx):
    c07.rule_c(ctx)
    c14.rule_d(ctx)
    K.check_floors(ctx, "C03")


def rule_g(ctx):
    from . import c10, c07
    c10.rule_a(ctx)
    c10.rule_d(ctx)
    c07.rule_b(ctx)

def rule_h(ctx):
    """a blocked sender / an idle receiver is always woken when its condition becomes true (C12.b)"""
    from . import c12
    c12.rule_b(ctx)

RULES = [
    ("C03.h", "wake-up pairing of the mailbox (a message waiting for space is eventually enqueued)", rule_h),
    ("C03.g", "scheduler-originated events: every due action is pulled through the helper and executed once", rule_g),
    ("C03.a", "a message closure is consumed at most once and never dropped on Full", rule_a),
    ("C03.b", "every Sender implementation sends exactly once (or not at all iff filtered)", rule_b),
    ("C03.c", "fan-out: one future per accepting connection, all awaited", rule_c),
    ("C03.d", "receiver: one call per popped message, awaited to completion", rule_d),
    ("C03.e", "in-flight counter pairing", rule_e),
    ("C03.f", "sequenced scheduled events; shared connection lists", rule_f),
]


def rule_inventory(ctx):
    from . import inventory
    inventory.check(ctx, ['mailbox-push', 'mailbox-pop', 'mailbox-recv', 'file:mailbox-queue', 'seq-future-build'])


RULES.append(("C03.i", "state-mutation inventory: no new site that changes the content of the state this property rests on", rule_inventory))



def rule_awaits(ctx):
    from . import inventory
    inventory.check_awaits(ctx, None)


RULES.append(("C03.j", "await inventory: only futures whose completion rule is covered are polled on the delivery path", rule_awaits))


def rule_mustpass(ctx):
    from . import mustpass
    mustpass.check(ctx, ['send-completes-after-wait', 'send-ok-notifies-receiver', 'recv-runs-handler', 'recv-notifies-sender', 'output-send-broadcasts', 'requestor-send-broadcasts', 'process-event-runs', 'process-query-runs', 'senders-create-channel-send', 'senders-await-channel-send', 'sink-senders-write', 'direct-sends-await', 'output-broadcast-polls', 'source-broadcast-polls', 'event-source-broadcasts', 'connect-registers', 'port-send-throws', 'source-send-throws', 'model-task-receives', 'model-task-ends-only-on-error-or-abort', 'scratchpad-refreshes-when-behind', 'scratchpad-copies-shared-value'])


RULES.append(("C03.k", "must-pass-through: no path around the effects this property rests on (added fast paths / early returns)", rule_mustpass))


def rule_commit(ctx):
    from . import mustpass
    for spec in [('mailbox-signals', 12), ('sched-queue', 25), ('throw', 8), ('ports', 80), ('lockfree', 9, r'^channel::queue::|^util::(task_set|cached_rw_lock)::')]:
        mustpass.commit_group(ctx, *spec)


RULES.append(("C03.l", "branch-commit: between the decision to perform an effect and the effect there is no way out", rule_commit))
