"""C06 Deadlock / message-loss detection — clauses a..e (DESIGN.md section 5, C06)."""
from ..core import Site, TERM, norm, origin_calls, origin_proj_names, last_seg, Cond, origin_contains
from . import common as K

EXPLANATION = (
    "Decides: (a) the thread-local in-flight message counter is only mutated at the reviewed sites: +1 once "
    "in the send coroutine on the success branch after the push, -1 once in the receive coroutine after a "
    "successful pop, stash/restore in the single-threaded run, replace(0)+fold in the multi-threaded worker; "
    "(b) a worker folds its count before every operation that can make it (or the pool) observable as "
    "inactive, with no task run in between, and Executor::run reads the global counter only under "
    "pool_is_idle(); (c) Simulation::run builds the report from all observers, listing exactly those with a "
    "non-zero length under their registered name, MessageLoss iff the list is empty; (d) every spawn of a "
    "model task registers an observer of the same mailbox under the same qualified name (sub-models "
    "included); (e) an observer's length is the mailbox queue's length. NOT decided: exactness of the count "
    "at the idle instant under all interleavings, the arithmetic of Queue::len."
)
TRUSTED = K.TRUSTED

TMC = "channel::THREAD_MSG_COUNT"
LK = "std::thread::LocalKey::"


def _is_tmc(body, site):
    a = site.args()
    if not a:
        return False
    return any(o[0] == "const" and o[2] == TMC for o in body.origins(a[0], site))


def tmc_mutations(P):
    out = []
    for b in P.all_bodies():
        for s in b.calls(r"^std::thread::LocalKey::(set|replace|take|with|with_borrow_mut|try_with)$"):
            if _is_tmc(b, s):
                out.append(s)
    return out


def _delta_of_set(site):
    """+1 / -1 if the value set is get(THREAD_MSG_COUNT).wrapping_add/sub(1) (or +/- 1), else None."""
    b = site.body
    o = b.origins(site.args()[1], site)
    if len(o) != 1:
        return None
    x = next(iter(o))
    if x[0] == "call" and x[2] in ("core::num::<impl isize>::wrapping_add", "core::num::<impl isize>::wrapping_sub"):
        cs = Site(b, x[1], TERM)
        a0 = b.origins(cs.args()[0], cs)
        a1 = b.origins(cs.args()[1], cs)
        base_ok = all(y[0] == "call" and y[2] == LK + "get" for y in a0) and all(
            _is_tmc(b, Site(b, y[1], TERM)) for y in a0)
        if base_ok and a1 == frozenset([("const", 1, "1_isize")]) or (base_ok and all(y[0] == "const" and y[1] == 1 for y in a1)):
            return 1 if x[2].endswith("wrapping_add") else -1
    if x[0] == "bin" and x[1] in ("Add", "Sub", "AddWithOverflow", "SubWithOverflow"):
        return None
    return None


def rule_a(ctx):
    P = ctx.prog
    sites = tmc_mutations(P)
    if not sites:
        return ctx.missing("mutations of THREAD_MSG_COUNT")
    n_inc = n_dec = n_st = n_mt = 0
    for s in sites:
        b = s.body
        fn = K.owner_fn(P, b).name
        c = s.callee
        if c == LK + "set":
            d = _delta_of_set(s)
            if d == 1:
                n_inc += 1
                ok = fn == "channel::Sender::send" and not b.in_loop(s)
                # on the success side
                conds = b.conditions(s)
                succ = [x for x in conds if x.kind == "bool" and x.data[1] is True]
                ok_branch = False
                for x in succ:
                    # success = Ready payload of the awaited wait_until future
                    if all(origin_proj_names(o)[1][-2:] == [("d", "Ready"), ("f", "0")] and origin_proj_names(o)[0][0] == "call"
                           and origin_proj_names(o)[0][2] == "std::future::Future::poll" for o in x.data[0]) and x.data[0]:
                        ok_branch = True
                ctx.ob("inc|%s" % fn, ok and ok_branch,
                       "+1 exactly once, in Sender::send, outside loops, on the branch where the awaited push reported success", [s])
            elif d == -1:
                n_dec += 1
                conds = b.conditions(s)
                some = any(x.kind == "variant" and x.data[1] == {"Some"} and not x.data[2] and
                           all(origin_proj_names(o)[0][0] == "call" and origin_proj_names(o)[0][2] == "std::future::Future::poll" for o in x.data[0])
                           for x in conds)
                ctx.ob("dec|%s" % fn, fn == "channel::Receiver::recv" and not b.in_loop(s) and some,
                       "-1 exactly once, in Receiver::recv, outside loops, on the branch where a message was popped", [s])
            else:
                ctx.ob("unclassified|%s" % fn, False, "THREAD_MSG_COUNT.set(..) with a value other than get()+/-1", [s])
        elif c == LK + "replace":
            if fn == "executor::st_executor::ExecutorInner::run":
                n_st += 1
                ctx.ob("st-stash|%s" % fn, True, "single-threaded run stashes/restores the counter", [s])
            elif fn == "executor::mt_executor::run_local_worker":
                n_mt += 1
                zero = b.origins(s.args()[1], s) == frozenset([("const", 0, "0_isize")]) or all(
                    o[0] == "const" and o[1] == 0 for o in b.origins(s.args()[1], s))
                # result folded into the global counter
                folds = [f for f in b.calls(r"^std::sync::atomic::Atomic::fetch_add$")
                         if b.origins(f.args()[1], f) == frozenset([("call", s.b, LK + "replace")])]
                ctx.ob("mt-fold|%s" % fn, zero and len(folds) == 1 and b.dominates(s, folds[0]),
                       "the worker replaces its count by 0 and adds exactly the replaced value to the global counter", [s] + folds)
            else:
                ctx.ob("unclassified|%s" % fn, False, "unexpected THREAD_MSG_COUNT.replace site", [s])
        else:
            ctx.ob("unclassified|%s" % fn, False, "unexpected mutation of THREAD_MSG_COUNT via %s" % c, [s])
    ctx.ob("count|inc", n_inc == 1, "exactly one +1 site (found %d)" % n_inc)
    ctx.ob("count|dec", n_dec == 1, "exactly one -1 site (found %d)" % n_dec)
    ctx.ob("count|st", n_st == 2, "exactly two replace sites in the single-threaded run (found %d)" % n_st)
    ctx.ob("count|mt", n_mt == 1, "exactly one replace(0) site in the multi-threaded worker (found %d)" % n_mt)
    # single-threaded stash / restore shape
    b = P.body("executor::st_executor::ExecutorInner::run")
    if b is None:
        ctx.missing("executor::st_executor::ExecutorInner::run")
    else:
        reps = sorted([s for s in b.calls(LK + "replace$") if _is_tmc(b, s)], key=lambda s: b.rpo_index.get(s.b, 0))
        if len(reps) == 2:
            first, second = reps
            ok = b.dominates(first, second) and b.origins(second.args()[1], second) == frozenset([("call", first.b, LK + "replace")])
            ctx.ob("st|restore-stashed", ok, "the second replace restores exactly the value stashed by the first", reps)
            o1 = b.origins(first.args()[1], first)
            ok = all(origin_proj_names(o)[1][-1:] == [("f", "msg_count")] for o in o1) and bool(o1)
            ctx.ob("st|resume-own-count", ok, "the run starts from the executor's own saved msg_count", [first])
            # Ok only if the count read back is zero
            oks = [s for s in K.ret_assigns(b) if K.result_variant_of_ret(s) == "Ok"]
            okz = bool(oks) and all(any(c.kind in ("cmp", "int") for c in b.conditions(s)) for s in oks)
            errs = list(b.aggregates(adt="executor::ExecutorError", variant="UnprocessedMessages"))
            okn = bool(errs) and all(any(c.kind == "cmp" and c.data[0] == "!=" and
                                         any(origin_proj_names(o)[1][-1:] == [("f", "msg_count")] for o in c.data[1]) and
                                         all(o[0] == "const" and o[1] == 0 for o in c.data[2]) for c in b.conditions(e)) for e in errs)
            ctx.ob("st|unprocessed-iff-nonzero", okn, "UnprocessedMessages is reported exactly when the restored count != 0", errs)
            for s in oks:
                ok = any(c.kind == "cmp" and c.data[0] == "==" and any(origin_proj_names(o)[1][-1:] == [("f", "msg_count")] for o in c.data[1])
                         for c in b.conditions(s)) and any(c.kind == "variant" and "Err" not in c.data[1] for c in b.conditions(s))
                ctx.ob("st|ok-iff-zero", ok, "Ok is returned only when no panic occurred and the count == 0", [s])


def _contains_fold(P, name, depth=0):
    b = P.body(name)
    if b is None or depth > 3:
        return False
    if any(_is_tmc(b, s) for s in b.calls(LK + "replace$")):
        return True
    return False


def rule_b(ctx):
    P = ctx.prog
    workers = [b for b in P.all_bodies() if any(True for _ in b.calls(r"PoolManager::try_set_worker_inactive$"))]
    if not workers:
        return ctx.missing("worker loop (caller of PoolManager::try_set_worker_inactive)")
    for w in workers:
        folds = [s for s in w.calls() if (s.resolved and _contains_fold(P, s.resolved)) or (s.callee == LK + "replace" and _is_tmc(w, s))]
        deacts = [s for s in w.calls(r"PoolManager::(try_set_worker_inactive|set_all_workers_inactive)$")]
        parks = [s for s in w.calls(r"^parking::Parker::park(_timeout)?$")]
        runs = set(s.key() for s in w.calls(r"executor::task::runnable::Runnable::run$|executor::task::Runnable::run$"))
        if not runs:
            ctx.missing("Runnable::run in the worker loop")
        if not folds:
            ctx.missing("fold of THREAD_MSG_COUNT in the worker loop")
        for d in deacts:
            ok = w.must_hold(folds, lambda s: s.key() in runs, d)
            ctx.ob("fold-before-deactivation|%s|%s" % (K.owner_fn(P, w).name, last_seg(d.callee)), ok,
                   "the worker must fold its thread-local message count into the global counter before it can be observed as "
                   "inactive (else Executor::run reads an incomplete count: spurious MessageLoss/Deadlock or a panic)", [d] + folds)
        for p in parks:
            ok = w.must_hold(folds, lambda s: s.key() in runs, p)
            ctx.ob("fold-before-park|%s" % K.owner_fn(P, w).name, ok, "no task may run between the last fold and parking", [p])
        ctx.ob("floor|deactivations", len(deacts) >= 2 and len(parks) >= 2, "expected 2 deactivation and 2 park sites in the worker loop", deacts + parks)
    # Executor::run (multi-threaded): count read only when the pool is idle
    r = P.body("executor::mt_executor::Executor::run")
    if r is None:
        return ctx.missing("executor::mt_executor::Executor::run")
    loads = [s for s in r.calls(r"^std::sync::atomic::Atomic::load$")
             if any(origin_proj_names(o)[1][-1:] == [("f", "msg_count")] for o in r.origins(s.args()[0], s))]
    if not loads:
        ctx.missing("load of ExecutorContext.msg_count in Executor::run")
    for s in loads:
        ok = any(c.kind == "call" and c.data[0].endswith("PoolManager::pool_is_idle") and c.data[1] is True for c in r.conditions(s))
        ctx.ob("count-read-when-idle", ok, "the global message count is read only after pool_is_idle() returned true", [s])
    oks = [s for s in K.ret_assigns(r) if K.result_variant_of_ret(s) == "Ok"]
    for s in oks:
        conds = r.conditions(s)
        ok = any(c.kind == "call" and c.data[0].endswith("PoolManager::pool_is_idle") and c.data[1] is True for c in conds) and \
            any(c.kind == "cmp" and c.data[0] == "==" and all(o[0] == "const" and o[1] == 0 for o in c.data[2]) for c in conds)
        ctx.ob("ok-iff-idle-and-zero", ok, "Executor::run returns Ok only if the pool is idle and the message count is 0", [s])
    errs = list(r.aggregates(adt="executor::ExecutorError", variant="UnprocessedMessages"))
    for e in errs:
        conds = r.conditions(e)
        ok = any(c.kind == "call" and c.data[0].endswith("PoolManager::pool_is_idle") and c.data[1] is True for c in conds) and \
            any(c.kind == "cmp" and c.data[0] == "!=" for c in conds)
        ctx.ob("unprocessed-iff-idle-and-nonzero", ok, "UnprocessedMessages only if the pool is idle and the count != 0", [e])
    if not errs:
        ctx.missing("UnprocessedMessages in mt Executor::run")


def rule_c(ctx):
    P = ctx.prog
    mapping = None
    for b in K.sim_bodies(P):
        if any(s.node["r"]["variant"] == "Deadlock" for s in b.aggregates(adt="simulation::ExecutionError")):
            mapping = b
    if mapping is None:
        return ctx.missing("body building ExecutionError::Deadlock")
    b = mapping
    lens = list(b.calls(r"channel::ChannelObserver::len$"))
    infos = list(b.aggregates(adt="simulation::DeadlockInfo"))
    pushes = [s for s in b.calls(r"^std::vec::Vec::push$") if "simulation::DeadlockInfo" in (s.node.get("argtys") or ["", ""])[1]]
    if not (lens and infos and pushes):
        return ctx.missing("observer loop: ChannelObserver::len / DeadlockInfo / Vec::push")
    ln = lens[0]
    # the iterated collection is the whole observers vector
    its = [s for s in b.calls(r"^std::iter::IntoIterator::into_iter$")]
    whole = False
    for it in its:
        o = P.resolved_origins(b, it.args()[0], it)
        if any(origin_contains(x, lambda t: t[0] == "proj" and t[2] == ("f", "observers")) for x in o) and not any(origin_calls(x) for x in o):
            whole = True
            nxt = [s for s in b.calls(r"^std::iter::Iterator::next$") if s.resolved in ("<std::slice::Iter as std::iter::Iterator>::next", "<std::slice::IterMut as std::iter::Iterator>::next")]
            whole = whole and bool(nxt)
    ctx.ob("iterates-all-observers", whole, "the deadlock report iterates over the whole observers list (no skip/take/filter adaptor)", its)
    # len is called on the iterated element; push guarded by len != 0
    for p in pushes:
        conds = b.conditions(p)
        ok = any(c.kind == "cmp" and c.data[0] == "!=" and c.data[1] == frozenset([("call", ln.b, "channel::ChannelObserver::len")]) and
                 all(o[0] == "const" and o[1] == 0 for o in c.data[2]) for c in conds)
        ctx.ob("listed-iff-nonempty", ok, "a model is listed iff its observed mailbox length != 0", [p])
        ok2 = not any(c.kind not in ("cmp", "variant") for c in conds if c.site.b != 0 and b.block_dominates(ln.b, c.b))
        ctx.ob("no-extra-filter", ok2, "no other condition filters the listed models", [p])
    for a in infos:
        ops = a.node["r"]["ops"]
        fields = a.node["r"]["fields"]
        fo = dict(zip(fields, ops))
        size_ok = "mailbox_size" in fo and b.origins(fo["mailbox_size"], a) == frozenset([("call", ln.b, "channel::ChannelObserver::len")])
        ctx.ob("size-is-observed-len", size_ok, "DeadlockInfo.mailbox_size is the observed length", [a])
        name_o = b.origins(fo["model"], a) if "model" in fo else frozenset()
        obs_o = b.origins(ln.args()[0], ln)
        # both come from the same tuple element of the iteration: (name, observer) = .0 / .1 of the same root
        def root_and_last(os_):
            r = set()
            for o in os_:
                rt, names = origin_proj_names(o)
                r.add((rt, tuple(names[:-1]), names[-1] if names else None))
            return r
        rn = root_and_last(name_o)
        ro = root_and_last(obs_o)
        ok = len(rn) == 1 and len(ro) == 1 and next(iter(rn))[:2] == next(iter(ro))[:2] and next(iter(rn))[2] == ("f", "0") and next(iter(ro))[2] == ("f", "1")
        ctx.ob("name-pairs-with-observer", ok, "the reported name is the one registered with the observer whose length is reported", [a, ln])
    # MessageLoss iff the list is empty, Deadlock otherwise; MessageLoss carries the executor's count
    po = b.origins(pushes[0].args()[0], pushes[0])
    for v, want_empty in (("MessageLoss", True), ("Deadlock", False)):
        aggs = list(b.aggregates(adt="simulation::ExecutionError", variant=v))
        if not aggs:
            ctx.missing("construction of ExecutionError::" + v)
        for s in aggs:
            ok = False
            for c in b.conditions(s):
                if c.kind == "call" and c.data[0] == "std::vec::Vec::is_empty" and c.data[1] is want_empty:
                    if b.origins(c.data[2].args()[0], c.data[2]) == po:
                        ok = True
            ctx.ob("decision|%s" % v, ok, "MessageLoss iff the list of non-empty observed mailboxes is empty, Deadlock otherwise", [s])
            if v == "MessageLoss":
                mo = b.origins(s.node["r"]["ops"][0], s)
                ok = mo == frozenset([("proj", ("proj", ("arg", 2), ("d", "UnprocessedMessages")), ("f", "0"))])
                ctx.ob("messageloss-count", ok, "MessageLoss(n) carries the executor's unprocessed-message count unchanged", [s])
    # the Deadlock payload is the pushed list
    for s in b.aggregates(adt="simulation::ExecutionError", variant="Deadlock"):
        lo = b.origins(s.node["r"]["ops"][0], s)
        po = b.origins(pushes[0].args()[0], pushes[0])
        ctx.ob("deadlock-carries-list", lo == po and bool(lo), "Deadlock(..) carries the list that was filled", [s])


def rule_d(ctx):
    P = ctx.prog
    spawn_fn = None
    for b in P.all_bodies():
        if b.kind in ("Fn", "AssocFn") and any(True for _ in b.calls(r"simulation::ModelFuture::new$")):
            spawn_fn = b
    if spawn_fn is None:
        return ctx.missing("function spawning model tasks (caller of ModelFuture::new)")
    S = spawn_fn

    def observer_pushes(b):
        out = []
        for s in b.calls(r"^std::vec::Vec::push$"):
            tys = s.node.get("argtys") or []
            if len(tys) > 1 and "dyn channel::ChannelObserver" in tys[1]:
                out.append(s)
        return out

    def push_parts(b, s):
        """(name origins, mailbox origins) of an observers.push((name, Box::new(mailbox.0.observer())))"""
        o = b.origins(s.args()[1], s)
        name_o, mb_o = frozenset(), frozenset()
        for x in o:
            if x[0] == "agg":
                a = Site(b, x[1], x[2])
                ops = a.node["r"]["ops"]
                if len(ops) == 2:
                    name_o = b.origins(ops[0], a)
                    oo = b.origins(ops[1], a)
                    for y in oo:
                        for c in origin_calls(y):
                            if c[2] == "channel::Receiver::observer":
                                cs = Site(b, c[1], TERM)
                                mb_o = b.origins(cs.args()[0], cs)
        return name_o, mb_o

    # which parameters of S are the mailbox (its receiver is moved into the task) and the name (pushed to model_names)
    recv_arg = None
    for i in range(1, S.argc + 1):
        if "simulation::mailbox::Mailbox<" in S.locals[i]["ty"]:
            recv_arg = i
    name_arg = None
    for i in range(1, S.argc + 1):
        if S.locals[i]["ty"] == "std::string::String":
            name_arg = i
    if recv_arg is None or name_arg is None:
        return ctx.missing("mailbox / name parameters of " + S.name)
    inside = []
    for p in observer_pushes(S):
        n, m = push_parts(S, p)
        if n == frozenset([("arg", name_arg)]) and m and all(origin_proj_names(o)[0] == ("arg", recv_arg) for o in m):
            spawns = [s for s in S.calls(r"executor::Executor::spawn_and_forget$")]
            if all(S.dominates(p, sp) or S.postdominates(p, Site(S, 0, 0)) for sp in spawns) and not S.conditions(p):
                inside.append(p)
    callers = P.callers_of(lambda c: c == S.name)
    if len(callers) < 2:
        ctx.ob("floor|spawn-callers", False, "expected >= 2 callers of %s (SimInit::add_model, BuildContext::add_submodel); found %d" % (S.name, len(callers)))
    if inside:
        ctx.ob("observer-registered|%s" % S.name, True,
               "the model-task spawn function registers an observer of its own mailbox under its own name unconditionally", inside)
        for cb, cs in callers:
            ctx.ob("observer-registered|%s" % K.owner_fn(P, cb).name, True, "covered by registration inside %s" % S.name, [cs])
        return
    for cb, cs in callers:
        fn = K.owner_fn(P, cb).name
        ok = False
        sites = []
        for p in observer_pushes(cb):
            n, m = push_parts(cb, p)
            call_name = cb.origins(cs.args()[name_arg - 1], cs)
            call_mb = cb.origins(cs.args()[recv_arg - 1], cs)
            sites.append(p)
            if n == call_name and m and call_mb and all(origin_proj_names(o)[0] in call_mb for o in m) and (cb.dominates(p, cs) or cb.postdominates(p, cs)) and not [c for c in cb.conditions(p) if c not in cb.conditions(cs)]:
                ok = True
        ctx.ob("observer-registered|%s" % fn, ok,
               "every caller that spawns a model task must register a ChannelObserver of the same mailbox under the same "
               "qualified name (else a stall in that model is reported as MessageLoss / omitted from Deadlock)", [cs] + sites)


def rule_e(ctx):
    P = ctx.prog
    bs = P.find(r"^<channel::Observer as channel::ChannelObserver>::len$")
    if not bs:
        return ctx.missing("<channel::Observer as ChannelObserver>::len")
    for b in bs:
        qs = list(b.calls(r"^channel::queue::Queue::len$"))
        rets = K.ret_assigns(b)
        ok = len(qs) == 1 and all(r.is_term and r.callee == "channel::queue::Queue::len" for r in rets) and bool(rets)
        ctx.ob("observer-len-is-queue-len", ok, "Observer::len returns Queue::len of the shared channel", qs or rets)
    impls = [i for i in P.impls if i.get("trait") and norm(i["trait"]) == "channel::ChannelObserver"]
    ctx.ob("single-observer-impl", len(impls) == 1, "exactly one ChannelObserver implementation (found %d)" % len(impls),
           ["impl at %s:%s" % (i["file"], i["line"]) for i in impls])


def rule_f(ctx):
    K.check_floors(ctx, "C06")

def rule_g(ctx):
    from . import c12
    c12.rule_f(ctx)


def rule_h(ctx):
    """a blocked sender / an idle receiver is always woken when its condition becomes true (C12.b)"""
    from . import c12
    c12.rule_b(ctx)

RULES = [
    ("C06.h", "wake-up pairing of the mailbox (no spurious deadlock from a lost wake-up)", rule_h),
    ("C06.g", "the observed mailbox length is independent of the closed flag", rule_g),
    ("C06.f", "release/acquire floors of the idle-pool publication", rule_f),
    ("C06.a", "message counter mutated only at the reviewed sites", rule_a),
    ("C06.b", "fold before deactivation; count read only when idle", rule_b),
    ("C06.c", "Deadlock / MessageLoss report built from all observers", rule_c),
    ("C06.d", "every model task has a registered observer", rule_d),
    ("C06.e", "observer length = queue length", rule_e),
]


def rule_worker_loops(ctx):
    from . import c04
    c04.mt_worker_loop_rule(ctx)
    # no runnable task is dropped (= cancelled) or stranded when queues overflow or work is stolen
    c04.rule_task_handover(ctx)
    c04.rule_search_handover(ctx)
    c04.rule_pool_bits(ctx)
    c04.rule_executor_identity(ctx)


RULES.append(("C06.i", "run loops stop only when the worker's queues are empty (a worker that parks while holding runnable tasks makes the pool look idle: spurious Deadlock)", rule_worker_loops))


def rule_mustpass(ctx):
    from . import mustpass
    mustpass.check(ctx, ['add-model-registers', 'mt-run-returns-only-idle'])


RULES.append(("C06.j", "must-pass-through: no path around the effects this property rests on (added fast paths / early returns)", rule_mustpass))


def rule_commit(ctx):
    from . import mustpass
    for g, floor in [('pool', 40), ('registration', 5)]:
        mustpass.commit_group(ctx, g, floor)


RULES.append(("C06.k", "branch-commit: between the decision to perform an effect and the effect there is no way out", rule_commit))


def rule_deps(ctx):
    from . import c16
    c16.rule_c(ctx)


RULES.append(("C06.l", "sub-models are registered under parent.child (C16.c): the names listed in a Deadlock report are the qualified ones", rule_deps))
