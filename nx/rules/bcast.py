"""Rules shared by C02, C03, C04, C14: the two BroadcastFuture::poll implementations and the fan-out loops."""
from ..core import Site, TERM, norm, origin_calls, origin_proj_names, last_seg, Cond, origin_contains
from . import common as K
from ..masks import const_eval_set

POLLS = {
    "output": "<ports::output::broadcaster::BroadcastFuture as std::future::Future>::poll",
    "source": "<ports::source::broadcaster::BroadcastFuture as std::future::Future>::poll",
}


def _ret_variant(r):
    """('Ready'|'Pending', inner 'Ok'|'Err'|None) of an assignment to _0 in a poll fn."""
    if r.is_term:
        return None, None
    rv = r.node["r"]
    if rv["r"] != "agg":
        return None, None
    if norm(rv.get("adt", "")) != "std::task::Poll" and "Poll" not in rv.get("adt", ""):
        return None, None
    v = rv["variant"]
    inner = None
    if v == "Ready" and rv["ops"]:
        for o in r.body.origins(rv["ops"][0], r):
            if o[0] == "agg" and o[3] == "std::result::Result":
                inner = o[4]
    return v, inner


def poll_rules(ctx, which):
    """Obligations on one BroadcastFuture::poll (which in POLLS)."""
    P = ctx.prog
    from . import inventory, mustpass
    inventory.check_awaits(ctx, ["nexosim/src/ports/%s/broadcaster.rs" % which, "nexosim/src/ports/%s.rs" % which])
    inventory.check(ctx, ["task-set-take"])
    if which == "output":
        # the TaskSet that carries the sub-futures' wake-ups (index / countdown word, notification discipline)
        from . import c14
        c14.rule_g(ctx)
        wake_pairing(ctx)
    mustpass.check(ctx, ["%s-broadcast-polls" % which])
    b = P.body(POLLS[which])
    if b is None:
        return ctx.missing(POLLS[which])
    tag = which
    polls = list(b.calls("^std::future::Future::poll$"))
    ctx.ob("%s|two-poll-sites" % tag, len(polls) == 2, "first-pass poll and re-poll sites", polls)
    # ---- the counter is decremented only together with recording a Ready(Ok) result of the poll just made
    decs = []
    for s in b.assigns():
        pp = s.node["p"]["p"]
        if pp and pp[-1] != "*" and pp[-1][0] == "f" and pp[-1][2] == "pending_futures_count":
            decs.append(s)
    adt = POLLS[which].split(" as ")[0].lstrip("<")
    ow = K.whole_value_overwrites(P, {adt})
    ctx.ob("%s|future-never-replaced-in-place" % tag, not ow,
           "no statement overwrites a live BroadcastFuture as a whole (that would reset the pending counter and the sub-future states)", ow or decs)
    esc = K.field_escapes(P, adt, "pending_futures_count")
    ctx.ob("%s|counter-not-borrowed-mutably" % tag, not esc, "no &mut / raw pointer to pending_futures_count is taken (direct assignments are its only writers)", esc or decs)
    ctx.ob("%s|two-decrement-sites" % tag, len(decs) == 2, "the pending counter is decremented at one site per pass (found %d)" % len(decs), decs)
    for d in decs:
        ok = False
        for c in b.conditions(d):
            # Ready(Ok(..)) of a poll: variant Ok on ((poll as Ready).0)
            if c.kind == "variant" and c.data[1] == {"Ok"} and not c.data[2]:
                for o in c.data[0]:
                    rt, names = origin_proj_names(o)
                    if rt[0] == "call" and rt[2] == "std::future::Future::poll" and names[:2] == [("d", "Ready"), ("f", "0")]:
                        ps = Site(b, rt[1], TERM)
                        # no other poll between that poll and the decrement
                        if b.dominates(ps, d):
                            ok = True
        ctx.ob("%s|decrement-only-on-ready-ok" % tag, ok,
               "the pending counter is decremented only in the Ready(Ok) arm of the sub-future poll just made (a woken sub-future that is "
               "still pending must stay counted)", [d])
        vo = b.origins(d.node["r"]["o"], d) if d.node["r"]["r"] == "use" else frozenset()
        ok = False
        for o in vo:
            rt, _ = origin_proj_names(o)
            if rt[0] == "bin" and rt[1].startswith("Sub") and const_eval_set(frozenset([rt[3]])) == 1:
                ok = True
        ctx.ob("%s|decrement-by-one" % tag, ok, "the counter decreases by exactly one per completed sub-future", [d])
        ctx.ob("%s|one-decrement-per-poll" % tag, not b.can_reach(d, d, avoiding=polls), "at most one decrement per polled sub-future", [d])
    # ---- every Ready(Ok) result of a sub-future is stored in the slot selected by the same index, on the same arm
    for k, p in enumerate(sorted(polls, key=lambda x: b.rpo_index.get(x.b, 0))):
        po = ("call", p.b, p.callee)
        stores = []
        for st in b.assigns():
            pl = st.node["p"]
            if "*" not in pl["p"] or st.node["r"]["r"] != "use":
                continue
            vo = b.origins(st.node["r"]["o"], st)
            for o in vo:
                if o[0] != "agg" or o[4] not in ("Some", "Ready"):
                    continue
                a = Site(b, o[1], o[2])
                io = b.origins(a.node["r"]["ops"][0], a) if a.node["r"]["ops"] else frozenset()
                if any(origin_proj_names(x)[0] == po and origin_proj_names(x)[1][:3] == [("d", "Ready"), ("f", "0"), ("d", "Ok")] for x in io):
                    stores.append(st)
        ok = False
        for st in stores:
            dst = b.place_origins({"l": st.node["p"]["l"], "p": []}, st)
            slot_idx = set()
            for d in dst:
                for c in origin_calls(d):
                    if c[2] == "std::ops::IndexMut::index_mut":
                        cs = Site(b, c[1], TERM)
                        slot_idx.add(b.origins(cs.args()[1], cs))
            wk = [w for w in b.calls(r"TaskSet::waker_of$") if b.dominates(w, p) and not any(b.dominates(w, q) and b.dominates(q, p) and q.key() != p.key() for q in polls)]
            widx = set(b.origins(w.args()[1], w) for w in wk)
            conds = b.conditions(st)
            in_ok_arm = any(c.kind == "variant" and c.data[1] == {"Ok"} and not c.data[2] for c in conds)
            if slot_idx and slot_idx == widx and in_ok_arm and b.dominates(p, st):
                ok = True
        ctx.ob("%s|result-stored-in-own-slot|pass%d" % (tag, k), ok,
               "the Ready(Ok) result of a sub-future is stored in the reply slot selected by the same task index (replies are matched to their replier)", stores or [p])
    # ---- return values
    rets = K.ret_assigns(b)
    ready_ok = [r for r in rets if _ret_variant(r) == ("Ready", "Ok")]
    ready_err = [r for r in rets if _ret_variant(r) == ("Ready", "Err")]
    pend = [r for r in rets if _ret_variant(r)[0] == "Pending"]
    ctx.ob("%s|return-kinds" % tag, len(ready_ok) == 2 and len(ready_err) == 2 and len(pend) == 1,
           "poll returns Ready(Ok) at two sites (one per pass), Ready(Err) at two sites, Pending at one site", rets)
    for r in ready_ok:
        ok = False
        for c in b.conditions(r):
            if c.kind == "cmp" and c.data[0] == "==":
                sides = c.data[1] | c.data[2]
                if any(origin_proj_names(o)[1][-1:] == [("f", "pending_futures_count")] for o in sides) and any(o[0] == "const" and o[1] == 0 for o in sides):
                    ok = True
        ctx.ob("%s|ready-only-when-count-zero" % tag, ok,
               "the broadcast resolves Ok only when the count of pending sub-futures is zero (all recipients have accepted the message / replied)", [r])
    for r in ready_err:
        ok = any(c.kind == "variant" and c.data[1] == {"Err"} and not c.data[2] for c in b.conditions(r))
        ctx.ob("%s|err-only-on-sub-error" % tag, ok, "the broadcast fails only when a sub-future returned Err(SendError)", [r])
    for r in pend:
        ok = any(c.kind == "variant" and c.data[1] == {"None"} and not c.data[2] and
                 any(x[2].endswith("TaskSet::take_scheduled") for o in c.data[0] for x in origin_calls(o)) for c in b.conditions(r))
        ctx.ob("%s|pending-only-when-nothing-scheduled" % tag, ok, "Pending is returned only when no sub-task is scheduled (take_scheduled == None)", [r])
        # waker registration: no path from entry to the Pending return that avoids both a register call and a has_scheduled()==true edge
        regs = list(b.calls(r"^diatomic_waker::WakeSink::register$"))
        removed = set()
        for blk in sorted(b.live_blocks):
            if b.blocks[blk]["term"]["t"] != "switch":
                continue
            for tgt in b.succ[blk]:
                c = Cond(b, blk, tgt)
                if c.kind == "call" and c.data[0].endswith("TaskSet::has_scheduled") and c.data[1] is True:
                    removed.add((blk, tgt))
        blocked = set(s.b for s in regs)
        seen = set()
        stack = [0]
        reach = False
        while stack:
            x = stack.pop()
            if x in seen or x in blocked:
                continue
            seen.add(x)
            if x == r.b:
                reach = True
                break
            for s in b.succ[x]:
                if (x, s) not in removed:
                    stack.append(s)
        ctx.ob("%s|waker-registered-before-pending" % tag, bool(regs) and not reach,
               "on every poll that returns Pending the task's waker has been (re-)registered, unless sub-tasks were already scheduled "
               "(otherwise a later completion cannot wake the broadcasting task: lost wake-up)", regs + [r])
        # the registration precedes take_scheduled in the same iteration
        ts = list(b.calls(r"TaskSet::take_scheduled$"))
        ctx.ob("%s|woken-on-each-subfuture-progress" % tag, len(ts) == 1 and all(t.args()[1].get("v") == 1 for t in ts),
               "the broadcasting task asks to be woken as soon as one sub-future is scheduled (sub-sends of one broadcast can depend on each "
               "other through a shared full mailbox, so waiting for all of them can stall)", ts)
        ctx.ob("%s|register-before-take" % tag, bool(ts) and all(b.can_reach(g, t) for g in regs for t in ts) and all(not b.dominates(t, g) for g in regs for t in ts),
               "the waker is registered before the scheduled set is inspected (no window in which a wake-up is missed)", regs + ts)
    # ---- index agreement: the output slot / future / waker of one iteration use the same index
    for k, p in enumerate(sorted(polls, key=lambda x: b.rpo_index.get(x.b, 0))):
        users = [x for x in b.calls(r"^std::ops::IndexMut::index_mut$|^std::ops::Index::index$|TaskSet::waker_of$") if b.dominates(x, p)]
        per_iter = []
        for x in users:
            io = b.origins(x.args()[1], x)
            roots = set(origin_proj_names(o)[0] for o in io)
            # index produced by an iterator step of this loop
            nxt = [Site(b, r[1], TERM) for r in roots if r[0] == "call" and r[2] == "std::iter::Iterator::next"]
            if nxt and all(b.dominates(n, x) for n in nxt) and not any(b.dominates(x, q) and b.dominates(q, p) and q.key() != p.key() for q in polls):
                # keep only users belonging to the iteration that contains p: the iterator step must not dominate an earlier poll
                if not any(b.dominates(n, q) and q.key() != p.key() and b.dominates(q, p) for n in nxt for q in polls):
                    per_iter.append((x, io))
        kinds = set(last_seg(x.callee) for x, _ in per_iter)
        same = len(set(io for _, io in per_iter)) == 1
        ctx.ob("%s|same-index-for-slot-future-waker|pass%d" % (tag, k), same and "waker_of" in kinds and len(per_iter) >= 2,
               "within one iteration the sub-future, its result slot and its waker are all selected by the same task index", [x for x, _ in per_iter] + [p])


def wake_pairing(ctx):
    """Wherever a wake sink and a task set are put into one value (default / clone of the output broadcaster's shared state, the
    source-side broadcast future), the task set notifies a source of *that* sink - the one the poll registers the task's waker on.
    A task set wired to another sink (the original's, in Clone) wakes nobody."""
    P = ctx.prog
    n = 0
    for b in P.all_bodies():
        if "::tests" in b.name:
            continue
        for a in b.aggregates():
            f = a.node["r"].get("fields") or []
            if "wake_sink" not in f or "task_set" not in f:
                continue
            fo = dict(zip(f, a.node["r"]["ops"]))
            ws = b.origins(fo["wake_sink"], a)
            ts = b.origins(fo["task_set"], a)
            if all(o[0] == "proj" for o in ws | ts):
                continue  # a projection of an existing value (pin_project), not a construction
            n += 1
            ok = bool(ws) and bool(ts) and all(o[0] == "call" and o[2] == "diatomic_waker::WakeSink::new" for o in ws) and \
                all(o[0] == "call" and o[2] in ("util::task_set::TaskSet::new", "util::task_set::TaskSet::with_len") for o in ts)
            if ok:
                for t in ts:
                    cs = Site(b, t[1], TERM)
                    so = b.origins(cs.args()[0], cs)
                    ok = ok and bool(so) and all(u[0] == "call" and u[2] == "diatomic_waker::WakeSink::source" for u in so)
                    if not ok:
                        break
                    for u in so:
                        ss = Site(b, u[1], TERM)
                        ok = ok and b.origins(ss.args()[0], ss) == ws
            ctx.ob("wake-pairing|%s" % b.name, ok,
                   "the task set stored next to a wake sink notifies a source of that very sink (a fresh one per value)", [a])
    ctx.ob("floor|wake-pairing-sites", n >= 3, "expected >= 3 constructions of a (wake sink, task set) pair (found %d)" % n)


def output_slot_rules(ctx):
    """output broadcaster: a completed sub-future is skipped on re-poll (output.is_some) and its result stored in its slot."""
    P = ctx.prog
    b = P.body(POLLS["output"])
    if b is None:
        return ctx.missing(POLLS["output"])
    polls = sorted(b.calls("^std::future::Future::poll$"), key=lambda s: b.rpo_index.get(s.b, 0))
    if len(polls) != 2:
        return
    rep = polls[1]
    ok = any(c.kind == "call" and c.data[0] == "std::option::Option::is_some" and c.data[1] is False for c in b.conditions(rep))
    ctx.ob("output|completed-not-repolled", ok, "a sub-future whose output slot is already filled is not polled again", [rep])
    # ... which is only sound if the slots are emptied whenever a new broadcast future is created
    nb = P.body("ports::output::broadcaster::BroadcastFuture::new")
    if nb is None:
        return ctx.missing("ports::output::broadcaster::BroadcastFuture::new")
    tk = list(nb.calls("^std::option::Option::take$"))
    tks = list(nb.calls("^std::iter::Iterator::take$"))
    ok = len(tk) == 1 and len(tks) == 1 and nb.in_loop(tk[0]) and not [c for c in nb.conditions(tk[0]) if c.kind != "variant"]
    ctx.ob("output|slots-cleared-before-broadcast", ok,
           "the reply slots about to be used are emptied when the broadcast future is created (a stale Some would make the re-poll loop skip "
           "a pending sub-future for ever)", tk + tks)
    cnt = [s for s in nb.calls("^std::vec::Vec::len$")]
    ok = bool(cnt) and any(nb.origins(t.args()[1], t) == frozenset([("call", c.b, c.callee)]) for t in tks for c in cnt)
    ctx.ob("output|cleared-count-is-number-of-futures", ok, "exactly as many slots are emptied as there are sub-futures", cnt)


def fanout_rules(ctx, module):
    """BroadcasterInner::futures of ports::<module>::broadcaster: one send per connection, each future kept."""
    P = ctx.prog
    fb = None
    for b in P.all_bodies():
        if b.name == "ports::%s::broadcaster::BroadcasterInner::futures" % module:
            fb = b
    if fb is None:
        return ctx.missing("ports::%s::broadcaster::BroadcasterInner::futures" % module)
    tag = module
    SND = "ports::%s::sender::Sender::" % module
    sends = [s for s in fb.calls(lambda c: c in (SND + "send", SND + "send_owned"))]
    pushes = [s for s in fb.calls("^std::vec::Vec::push$")]
    nexts = [s for s in fb.calls("^std::iter::Iterator::next$")]
    ctx.ob("%s|fanout-shape" % tag, len(sends) == 2 and len(pushes) == 2 and len(nexts) == 1,
           "the fan-out loop has one `send` site (cloned argument) and one `send_owned` site (last connection), each followed by a push", sends + pushes + nexts)
    if not (len(sends) == 2 and len(pushes) == 2 and len(nexts) == 1):
        return
    nx = nexts[0]
    # iterates the whole senders list
    its = [s for s in fb.calls(r"iter_mut$")]
    ok = False
    for it in its:
        o = fb.origins(it.args()[0], it)
        if any(origin_proj_names(x)[1][-1:] == [("f", "senders")] for x in o) or any(origin_contains(x, lambda t: t[0] == "proj" and t[2] == ("f", "senders")) for x in o):
            ok = True
    ctx.ob("%s|iterates-all-senders" % tag, ok and ("call", its[0].b, its[0].callee) in fb.origins(nx.args()[0], nx) if its else False,
           "the loop iterates over the whole list of connections", its + [nx])
    for s in sends:
        # the receiver is the element just yielded by next()
        ro = fb.origins(s.args()[0], s)
        ok = bool(ro) and all(origin_proj_names(x)[0] == ("call", nx.b, nx.callee) and origin_proj_names(x)[1][:2] == [("d", "Some"), ("f", "0")] for x in ro)
        ctx.ob("%s|send-on-iterated-connection|%s" % (tag, last_seg(s.callee)), ok, "each send targets the connection yielded by this iteration", [s])
        # exactly one send per iteration: from next() to this send no other send
        other = [x for x in sends if x.key() != s.key()]
        ctx.ob("%s|one-send-per-connection|%s" % (tag, last_seg(s.callee)), not any(fb.can_reach(s, o, avoiding=[nx]) for o in other) and not fb.can_reach(s, s, avoiding=[nx]),
               "a connection is sent to at most once per broadcast", [s])
        # the future is pushed iff Some
        def _payload(p):
            out = set()
            for x in fb.origins(p.args()[1], p):
                if x[0] == "agg":  # wrapped, e.g. SenderFutureState::Pending(fut)
                    a = Site(fb, x[1], x[2])
                    for op in a.node["r"]["ops"]:
                        out |= set(fb.origins(op, a))
                else:
                    out.add(x)
            return out
        ps = [p for p in pushes if any(origin_proj_names(x)[0] == ("call", s.b, s.callee) and origin_proj_names(x)[1] == [("d", "Some"), ("f", "0")] for x in _payload(p))]
        ok = len(ps) == 1
        if ok:
            conds = fb.conditions(ps[0])
            ok = any(c.kind == "variant" and c.data[1] == {"Some"} and not c.data[2] and c.data[0] == frozenset([("call", s.b, s.callee)]) for c in conds)
            ok = ok and fb.dominates(s, ps[0])
        ctx.ob("%s|future-kept-iff-some|%s" % (tag, last_seg(s.callee)), ok, "the future returned for a connection is kept (pushed) exactly when the connection accepted the message", [s] + ps)
    # send_owned only for the last element
    so = [s for s in sends if s.callee.endswith("send_owned")][0]
    ok = False
    for c in fb.conditions(so):
        if c.kind == "cmp" and c.data[0] == "==" and any(x[2].endswith("ExactSizeIterator::len") or x[2].endswith("::len") for o in (c.data[1] | c.data[2]) for x in origin_calls(o)) and \
                any(o[0] == "const" and o[1] == 0 for o in (c.data[1] | c.data[2])):
            ok = True
    ctx.ob("%s|move-only-for-last" % tag, ok, "the argument is moved (send_owned) only for the last connection; all others get a reference to clone from", [so])
