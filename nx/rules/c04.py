"""C04 Run-to-quiescence — structural clauses a..g (DESIGN.md section 5, C04)."""
from ..core import Site, TERM, norm, origin_calls, origin_proj_names, last_seg, Cond, origin_contains
from . import common as K
from . import c01, c06, c13
from .. import atomics
from ..masks import const_eval_set

EXPLANATION = (
    "Decides: (a) every function of Simulation / SimInit that spawns work onto the executor passes Simulation::run "
    "(-> Executor::run) on every path to an Ok return; (b) the multi-threaded Executor::run starts with the "
    "synchronising activate_worker(), returns Ok only under pool_is_idle() && msg_count == 0, parks otherwise, and the "
    "relaxed activation is only used from the task-scheduling closure; (c) in the worker loop the pool is declared idle "
    "(set_all_workers_inactive) only by the worker whose deactivation failed (last worker) after it re-checked that the "
    "injector is empty, and this is followed by unparking the executor thread; a worker parks only after a successful "
    "deactivation or after declaring the pool idle; the thread-local message count is folded before every deactivation; "
    "(d) the release/acquire floors of the active-worker bit set; (e) spawn*/spawn_and_forget on both executors register "
    "the CancelToken and queue the Runnable before returning; (f) the single-threaded run loop leaves only when the queue "
    "is empty or on abort and reports Ok only with a zero message count; (g) a Runnable whose poll returned Pending "
    "returns only if the wake count dropped to zero (lost-wake guard). NOT decided: equality of outcomes across "
    "executors, termination, correctness of the st3 work-stealing queue, exactness under all park/unpark interleavings."
)
TRUSTED = K.TRUSTED

PM = "executor::mt_executor::pool_manager::PoolManager::"


def rule_a(ctx):
    P = ctx.prog
    bodies = [b for b in K.sim_bodies(P) if b.kind in ("Fn", "AssocFn")]
    init = P.body("simulation::sim_init::SimInit::init")
    if init is not None:
        bodies.append(init)
    n = 0
    for b in bodies:
        spawns = [s for s in b.calls() if s.callee in K.SPAWNS]
        if b is init:
            spawns = [Site(b, 0, 0)]  # model tasks were spawned by add_model before init
        if not spawns:
            continue
        runs = [s for s in b.calls(K.SIM_RUN)]
        rets = K.ret_assigns(b)
        okrets = []
        for r in rets:
            v = K.result_variant_of_ret(r)
            if v == "Ok":
                okrets.append(r)
            elif v is None and not (r.is_term and r.callee == K.SIM_RUN):
                okrets.append(r)  # e.g. returns the Result of another call: treat as a return that must be preceded by run
        for s in spawns:
            n += 1
            leak = [r for r in okrets if (b.can_reach(s, r, avoiding=runs) if s.i != 0 or s.b != 0 else b.path_exists_to_return(s, avoiding=runs + [x for x in rets if K.result_variant_of_ret(x) == "Err"]) and r is okrets[0])]
            ctx.ob("run-before-ok|%s" % b.name, not leak and bool(runs),
                   "work spawned onto the executor must be run to quiescence (Simulation::run) before the call can return Ok", [s] + leak)
    ctx.ob("floor|spawning-fns", n >= 5, "expected >= 5 spawn sites followed by run (found %d)" % n)
    # Simulation::run really runs the executor
    r = P.body(K.SIM_RUN)
    if r is None:
        return ctx.missing(K.SIM_RUN)
    ex = list(r.calls(K.EXEC_RUN))
    ok = len(ex) == 1
    if ok:
        oks = [x for x in K.ret_assigns(r)]
        ok = all((x.is_term and ("call", ex[0].b, ex[0].callee) in r.origins(x.args()[0], x)) or K.result_variant_of_ret(x) == "Err" for x in oks)
    ctx.ob("sim-run-runs-executor", ok, "Simulation::run returns the (mapped) result of Executor::run, or Terminated", ex)
    e = P.body(K.EXEC_RUN)
    if e is not None:
        inner = [s for s in e.calls(r"^executor::(st_executor|mt_executor)::Executor::run$")]
        ctx.ob("executor-run-dispatches", len(inner) == 2, "Executor::run dispatches to the single- or multi-threaded executor", inner)


def rule_b(ctx):
    P = ctx.prog
    c06.rule_b(ctx)
    r = ctx.body("executor::mt_executor::Executor::run")
    if not r:
        return
    act = list(r.calls(PM + "activate_worker$"))
    ok = len(act) == 1 and not r.in_loop(act[0]) and not r.conditions(act[0])
    others = [s for s in r.calls() if s.key() != (act[0].key() if act else None) and not (s.callee or "").startswith("std::ops::Deref")]
    ok = ok and all(r.dominates(act[0], s) for s in others)
    ctx.ob("run-starts-with-activate-worker", ok,
           "Executor::run first activates a worker with the synchronising activate_worker() (so the last worker sees the spawned tasks)", act)
    parks = list(r.calls(r"^parking::Parker::park(_timeout)?$"))
    ok = bool(parks) and all(any(c.kind == "call" and c.data[0].endswith("pool_is_idle") and c.data[1] is False for c in r.conditions(p)) for p in parks)
    ctx.ob("run-parks-only-when-busy", ok, "Executor::run parks only after seeing the pool not idle, and re-checks after waking", parks)
    ctx.ob("run-park-in-loop", all(r.in_loop(p) for p in parks), "parking is inside the re-check loop (spurious or stale unpark tokens are harmless)", parks)
    # relaxed activation only from schedule_task
    for b, s in P.callers_of(lambda c: c == PM + "activate_worker_relaxed"):
        ctx.ob("relaxed-activation-caller|%s" % b.name, b.name.startswith("executor::mt_executor::schedule_task"),
               "activate_worker_relaxed may only be used when scheduling from a worker thread", [s])
    for b, s in P.callers_of(lambda c: c == PM + "activate_worker"):
        ok = b.name in ("executor::mt_executor::Executor::run",) or b.name.startswith("executor::mt_executor::Executor::new")
        ctx.ob("activation-caller|%s" % b.name, ok, "activate_worker is called by Executor::run", [s])


def rule_c(ctx):
    P = ctx.prog
    callers = P.callers_of(lambda c: c == PM + "set_all_workers_inactive")
    ctx.ob("idle-declared-at-one-site", len(callers) == 1, "set_all_workers_inactive has exactly one caller (found %d)" % len(callers), [s for _, s in callers])
    for w, s in callers:
        conds = w.conditions(s)
        last = any(c.kind == "call" and c.data[0] == PM + "try_set_worker_inactive" and c.data[1] is False for c in conds)
        empty = any(c.kind == "call" and c.data[0].endswith("Injector::is_empty") and c.data[1] is True for c in conds)
        ctx.ob("idle-only-by-last-worker-with-empty-injector", last and empty,
               "the pool is declared idle only by the last active worker after re-checking that the injector is empty", [s])
        # order: deactivation attempt (acquire) before the emptiness check
        tr = [c.data[2] for c in conds if c.kind == "call" and c.data[0] == PM + "try_set_worker_inactive"]
        em = [c.data[2] for c in conds if c.kind == "call" and c.data[0].endswith("Injector::is_empty")]
        ctx.ob("empty-check-after-deactivation-attempt", bool(tr) and bool(em) and w.dominates(tr[0], em[0]),
               "the injector is re-checked after the (synchronising) deactivation attempt", tr + em)
        unp = [u for u in w.calls("^parking::Unparker::unpark$")]
        ok = any(w.dominates(s, u) and w.postdominates(u, s) for u in unp)
        ctx.ob("idle-then-unpark-executor", ok, "declaring the pool idle is followed, on every path, by unparking the executor thread", [s] + unp)
        parks = list(w.calls("^parking::Parker::park$"))
        for p in parks:
            pc = w.conditions(p)
            ok = any(c.kind == "call" and c.data[0] == PM + "try_set_worker_inactive" and c.data[1] is True for c in pc) or w.dominates(s, p)
            ctx.ob("park-only-when-inactive", ok, "a worker parks only after it was marked inactive (successful deactivation or idle declaration)", [p])
        # a worker that could neither deactivate nor find the injector empty keeps searching (does not park)
        bs = list(w.calls(PM + "begin_worker_search$"))
        ctx.ob("busy-branch-searches", any(any(c.kind == "call" and c.data[0].endswith("Injector::is_empty") and c.data[1] is False for c in w.conditions(x)) for x in bs),
               "if the injector is not empty the last worker resumes searching instead of parking", bs)


def rule_d(ctx):
    K.check_floors(ctx, "C04")
    P = ctx.prog
    # try_set_worker_inactive: fence only on the last-worker branch, result false there
    b = P.body(PM + "try_set_worker_inactive")
    if b is None:
        return ctx.missing(PM + "try_set_worker_inactive")
    f = list(b.calls("^std::sync::atomic::fence$"))
    upd = list(b.calls("^std::sync::atomic::Atomic::fetch_update$"))
    ok = len(f) == 1 and len(upd) == 1 and b.dominates(upd[0], f[0])
    ctx.ob("last-worker-fence-after-rmw", ok, "the Acquire fence follows the Release RMW on the last-worker branch", f + upd)
    rets = K.ret_assigns(b)
    falses = [r for r in rets if not r.is_term and r.node["r"]["r"] == "use" and r.node["r"]["o"].get("v") is False]
    ok = bool(falses) and all(any(b.dominates(x, r) for x in f) for r in falses)
    ctx.ob("false-only-after-fence", ok, "`false` (last worker) is returned only after the Acquire fence", falses)


def rule_e(ctx):
    P = ctx.prog
    n = 0
    for mod, qpat in (("mt_executor", r"Injector::insert_task$"), ("st_executor", r"^std::collections::VecDeque::push_back$|ExecutorQueue::push$|::push$")):
        for m in ("spawn", "spawn_and_forget"):
            b = P.body("executor::%s::Executor::%s" % (mod, m))
            if b is None:
                ctx.missing("executor::%s::Executor::%s" % (mod, m))
                continue
            n += 1
            sp = list(b.calls(r"^executor::task::%s$" % m))
            ins = list(b.calls(r"^slab::VacantEntry::insert$"))
            q = [s for s in b.calls(qpat) if any("Runnable" in t for t in (s.node.get("argtys") or []))]
            ok = len(sp) == 1 and len(ins) == 1 and len(q) == 1
            if ok:
                spo = ("call", sp[0].b, sp[0].callee)
                tok = b.origins(ins[0].args()[1], ins[0])
                run = b.origins(q[0].args()[1], q[0])
                ok = all(origin_proj_names(x)[0] == spo for x in tok) and all(origin_proj_names(x)[0] == spo for x in run) and bool(tok) and bool(run)
                ok = ok and not b.conditions(ins[0]) and not b.conditions(q[0])
            ctx.ob("spawn-registers-and-queues|%s::%s" % (mod, m), ok,
                   "the spawned task's CancelToken is registered and its Runnable queued, unconditionally, before returning", sp + ins + q)
            # the future is wrapped so that it deregisters itself
            cf = list(b.calls(r"CancellableFuture::new$"))
            ctx.ob("spawn-wraps-cancellable|%s::%s" % (mod, m), len(cf) == 1, "the future is wrapped in a CancellableFuture keyed by its slab entry", cf)
    ctx.ob("floor|spawn-fns", n == 4, "spawn and spawn_and_forget exist on both executors")


def rule_f(ctx):
    P = ctx.prog
    b = ctx.body("executor::st_executor::ExecutorInner::run")
    if not b:
        return
    # the loop closure: pops until None or abort
    loops = [c for c in P.children(b) if any(True for _ in c.calls(r"Runnable::run$"))]
    ctx.ob("st-loop-present", len(loops) == 1, "one run loop in the single-threaded executor", [c.loc() for c in loops])
    for c in loops:
        runs = list(c.calls(r"Runnable::run$"))
        pops = [s for s in c.calls(r"::pop$|::pop_front$")]
        ok = len(runs) == 1 and len(pops) == 1 and c.in_loop(runs[0]) and c.in_loop(pops[0])
        ctx.ob("st-loop-shape", ok, "the loop pops a task and runs it", runs + pops)
        if not ok:
            continue
        # returns (normal) only under pop == None or abort flag set
        rets = [s for s in c.term_sites("return")]
        exits = []
        for blk in sorted(c.live_blocks):
            if c.blocks[blk]["term"]["t"] != "switch":
                continue
            for tgt in c.succ[blk]:
                # an edge leaving the loop: target cannot reach the pop again
                if c.blocks[tgt]["term"]["t"] == "unreachable":
                    continue
                if pops[0].b not in c.reachable(tgt) and pops[0].b in c.reachable(blk):
                    exits.append(Cond(c, blk, tgt))
        good = bool(exits)
        for e in exits:
            is_none = e.kind == "variant" and e.data[1] == {"None"} and any(x == ("call", pops[0].b, pops[0].callee) for x in e.data[0])
            is_abort = e.kind == "call" and e.data[0].endswith("Signal::is_set") and e.data[1] is True
            good = good and (is_none or is_abort)
        ctx.ob("st-loop-exits-only-when-empty-or-aborted", good,
               "the single-threaded loop stops only when the queue is empty or the abort signal is set", [e.site for e in exits])
    c06.rule_a(ctx)
    mt_worker_loop_rule(ctx)


def mt_worker_loop_rule(ctx):
    P = ctx.prog
    # the multi-threaded sibling: a worker leaves its run loop only with its fast slot and local queue empty (or aborted); it then
    # searches / parks on the assumption that it holds no runnable task
    ws = [w for w in P.all_bodies() if w.name.startswith("executor::mt_executor::run_local_worker") and any(True for _ in w.calls(r"Runnable::run$"))]
    ctx.ob("mt-loop-present", len(ws) == 1, "one run loop in the multi-threaded worker", [w.loc() if hasattr(w, "loc") else w.name for w in ws])
    for w in ws:
        runs = list(w.calls(r"Runnable::run$"))
        ok = len(runs) == 1 and w.innermost_loop(runs[0]) is not None
        ctx.ob("mt-loop-shape", ok, "the worker runs tasks at one site inside a loop", runs)
        if not ok:
            continue
        h, blocks = w.innermost_loop(runs[0])
        good = True
        sites = []
        n_none = 0
        for x, y in w.loop_exit_edges(blocks):
            if w.blocks[x]["term"]["t"] != "switch":
                good = False
                sites.append(Site(w, x, TERM))
                continue
            e = Cond(w, x, y)
            sites.append(e.site)
            is_abort = e.kind == "call" and e.data[0].endswith("Signal::is_set") and e.data[1] is True
            is_none = False
            if e.kind == "variant" and e.data[1] == {"None"} and not e.data[2] and e.data[0]:
                is_none = True
                for o in e.data[0]:
                    if not (o[0] == "call" and o[2] == "std::option::Option::or_else"):
                        is_none = False
                        continue
                    oe = Site(w, o[1], TERM)
                    ro = w.origins(oe.args()[0], oe)
                    took = bool(ro) and all(r[0] == "call" and r[2].endswith("::take") for r in ro)
                    pops = [P.body(norm(g)) for g in oe.node.get("gdefs", [])]
                    popped = any(pb is not None and any(True for _ in pb.calls(r"^st3::fifo::Worker::pop$")) for pb in pops)
                    is_none = is_none and took and popped
                n_none += 1 if is_none else 0
            good = good and (is_abort or is_none)
        ctx.ob("mt-loop-exits-only-when-empty-or-aborted", good and n_none >= 1,
               "the worker's run loop stops only when fast_slot.take().or_else(local_queue.pop()) is None or the abort signal is set "
               "(any other exit parks a worker that still holds runnable tasks)", sites)


def rule_g(ctx):
    c13.rule_e(ctx)


INJ = "executor::mt_executor::injector::Injector::"


def rule_j(ctx):
    """the injector's `is_empty` hint is never `true` while a bucket is queued (else the last worker declares the pool idle with work left)"""
    P = ctx.prog
    n = 0
    for nm in ("insert_task", "push_bucket", "pop_bucket"):
        b = P.body(INJ + nm)
        if b is None:
            ctx.missing(INJ + nm)
            continue
        stores = [s for s in b.calls("^std::sync::atomic::Atomic::store$") if atomics.receiver_field(b, s) == "is_empty"]
        guards = [i for i, l in enumerate(b.locals) if l["ty"].startswith("std::sync::MutexGuard<")]
        for s in stores:
            n += 1
            held = any(b.all_defs(g) and b.must_hold(b.all_defs(g), K.guard_kill(b, g), s) for g in guards)
            ctx.ob("injector|flag-written-under-lock|%s" % nm, held, "the emptiness flag is only written while the injector's mutex is held", [s])
            val = s.args()[1].get("v")
            conds = b.conditions(s)
            if val is True:
                ok = nm == "pop_bucket" and any(c.kind == "call" and c.data[0] == "std::vec::Vec::is_empty" and c.data[1] is True for c in conds)
                pops = [x for x in b.calls("^std::vec::Vec::pop$")]
                ok = ok and bool(pops) and all(b.dominates(x, s) for x in pops)
                # the emptiness test is evaluated after the pop
                ok = ok and all(b.dominates(pops[0], c.data[2]) for c in conds if c.kind == "call" and c.data[0] == "std::vec::Vec::is_empty")
                ctx.ob("injector|empty-flag-set-only-when-drained", ok, "`is_empty = true` is stored only in pop_bucket, after the pop, when the vector is empty", [s])
            elif val is False:
                ctx.ob("injector|nonempty-flag|%s" % nm, nm in ("insert_task", "push_bucket"), "`is_empty = false` is stored by the inserting functions", [s])
            else:
                ctx.ob("injector|flag-value|%s" % nm, False, "the emptiness flag is stored with a non-constant value", [s])
        if nm == "insert_task":
            # when the queue was empty (first_mut() == None) the function cannot return without storing false
            falses = [s for s in stores if s.args()[1].get("v") is False]
            leak = False
            found = False
            for blk in sorted(b.live_blocks):
                if b.blocks[blk]["term"]["t"] != "switch":
                    continue
                for tgt in b.succ[blk]:
                    c = Cond(b, blk, tgt)
                    if c.kind == "variant" and c.data[1] == {"None"} and not c.data[2] and any(x[2].endswith("first_mut") for o in c.data[0] for x in origin_calls(o)):
                        found = True
                        if b.path_exists_to_return(Site(b, tgt, -1), avoiding=falses):
                            leak = True
            ctx.ob("injector|insert-into-empty-clears-flag", found and not leak, "inserting into an empty injector always clears the emptiness flag before returning", falses)
        if nm == "push_bucket":
            falses = [s for s in stores if s.args()[1].get("v") is False]
            pushes = list(b.calls("^std::vec::Vec::push$"))
            ok = bool(falses) and bool(pushes)
            for s in falses:
                cs = [c for c in b.conditions(s) if c.kind == "call" and c.data[0] == "std::vec::Vec::is_empty" and c.data[1] is True]
                ok = ok and bool(cs) and all(b.dominates(c.data[2], pushes[0]) for c in cs)
                # ... and it is the emptiness of the locked bucket list itself (the vector the bucket is pushed to), not of anything else
                if pushes:
                    po = b.origins(pushes[0].args()[0], pushes[0])
                    ok = ok and all(b.origins(c.data[2].args()[0], c.data[2]) == po for c in cs) and \
                        any(x[2].endswith("Mutex::lock") for o in po for x in origin_calls(o))
            ctx.ob("injector|push-into-empty-clears-flag", ok, "pushing a bucket into an empty injector (emptiness of the locked list, sampled before the push) clears the flag", falses + pushes)
    ctx.ob("floor|injector-flag-stores", n >= 3, "expected >= 3 stores of the injector's emptiness flag (found %d)" % n)
    ie = P.body(INJ + "is_empty")
    if ie is not None:
        rets = K.ret_assigns(ie)
        ok = bool(rets) and all(r.is_term and r.callee == "std::sync::atomic::Atomic::load" and atomics.receiver_field(ie, r) == "is_empty" for r in rets)
        ctx.ob("injector|is-empty-reads-flag", ok, "Injector::is_empty returns the flag", rets)


def rule_h(ctx):
    from . import bcast
    for w in ("output", "source"):
        bcast.poll_rules(ctx, w)
    bcast.output_slot_rules(ctx)


def rule_i(ctx):
    """shared clause group: a message that was sent is processed before the step can be complete"""
    from . import c02, c05
    c02.rule_a(ctx)
    c05.recv_awaits_handler(ctx)

def rule_k(ctx):
    """shared clause group: how a due action gets executed (C10.a/d, C07.b/c)"""
    from . import c07, c10
    c10.rule_a(ctx)
    c10.rule_d(ctx)
    c07.rule_b(ctx)
    c07.rule_c(ctx)

def rule_l(ctx):
    """a blocked sender / an idle receiver is always woken when its condition becomes true (C12.b)"""
    from . import c12
    c12.rule_b(ctx)

RULES = [
    ("C04.l", "wake-up pairing of the mailbox (no stall while a slot is free)", rule_l),
    ("C04.k", "every due action is pulled through the helper and executed once (alone or chained in a SeqFuture polled to completion)", rule_k),
    ("C04.j", "the injector never looks empty while a bucket is queued", rule_j),
    ("C04.i", "a send completes only when enqueued; the receiver runs each handler to completion", rule_i),
    ("C04.h", "a broadcast neither resolves early nor stalls: counter, waker registration, slot reuse", rule_h),
    ("C04.a", "spawned work is run before Ok", rule_a),
    ("C04.b", "mt Executor::run: activate, Ok iff idle and count 0", rule_b),
    ("C04.c", "worker loop: idle declared only by the last worker with an empty injector", rule_c),
    ("C04.d", "ordering floors of the active-worker set", rule_d),
    ("C04.e", "spawn registers the token and queues the runnable", rule_e),
    ("C04.f", "single-threaded loop runs until the queue is empty", rule_f),
    ("C04.g", "lost-wake guard in Runnable::run", rule_g),
]


def rule_inventory(ctx):
    from . import inventory
    inventory.check(ctx, ['file:st_executor', 'file:mt_executor', 'file:injector', 'task-set-take'])


RULES.append(("C04.m", "state-mutation inventory: no new site that changes the content of the state this property rests on", rule_inventory))



def rule_awaits(ctx):
    from . import inventory
    inventory.check_awaits(ctx, None)


RULES.append(("C04.n", "await inventory: only futures whose completion rule is covered are polled on the delivery path", rule_awaits))


def rule_mustpass(ctx):
    from . import mustpass
    mustpass.check(ctx, ['process-event-runs', 'process-query-runs', 'process-runs', 'process-spawns', 'init-runs', 'step-until-steps', 'recv-runs-handler', 'recv-notifies-sender', 'st-spawn-enqueues', 'mt-spawn-enqueues', 'mt-run-returns-only-idle', 'exec-run-dispatches', 'st-run-runs-inner', 'output-broadcast-polls', 'source-broadcast-polls', 'senders-await-channel-send', 'model-task-receives'])


RULES.append(("C04.o", "must-pass-through: no path around the effects this property rests on (added fast paths / early returns)", rule_mustpass))


def rule_commit(ctx):
    from . import mustpass
    for g, floor in [('pool', 40), ('sched-queue', 25), ('mailbox-signals', 12), ('ports', 80), ('lockfree', 25)]:
        mustpass.commit_group(ctx, g, floor)


RULES.append(("C04.p", "branch-commit: between the decision to perform an effect and the effect there is no way out", rule_commit))


def rule_pool_bits(ctx):
    """Operand-level clauses of the pool manager's bit set (`active_workers`, one bit per worker): which bit is set, cleared and
    tested. A wrong shift operand keeps every call and branch in place and makes a worker park while marked active, or the pool look
    idle with a worker running."""
    P = ctx.prog

    def is_one_shl(o, pred):
        return isinstance(o, tuple) and o[0] == "bin" and o[1] == "Shl" and o[2][0] == "const" and o[2][1] == 1 and pred(o[3])

    # activate_worker(_relaxed): set the bit of the first idle worker = trailing_ones(active_workers), unpark that same worker
    for nm in ("activate_worker", "activate_worker_relaxed"):
        b = P.body(PM + nm)
        if b is None:
            ctx.missing(PM + nm)
            continue
        ors = [s for s in b.calls("^std::sync::atomic::Atomic::fetch_or$")]
        nonzero = []
        for s in ors:
            vo = b.origins(s.args()[1], s)
            if vo and all(o[0] == "const" and o[1] == 0 for o in vo):
                continue  # fetch_or(0): a pure RMW read (synchronisation), sets nothing
            nonzero.append((s, vo))
        ok = len(nonzero) == 1 and len(nonzero[0][1]) == 1 and is_one_shl(next(iter(nonzero[0][1])), lambda x: x[0] == "call" and x[2].endswith("trailing_ones"))
        ctx.ob("pool-bits|%s|sets-first-idle-bit" % nm, ok, "the bit set is 1 << trailing_ones(active_workers): the lowest inactive worker", [s for s, _ in nonzero] or ors)
        unp = list(b.calls(r"parking::Unparker::unpark$"))
        good = bool(unp)
        for u in unp:
            io = set()
            for o in b.origins(u.args()[0], u):
                rt, names = origin_proj_names(o)
                for n_ in names:
                    if n_[0] == "i" and len(n_) > 1:
                        io |= set(b.place_origins({"l": n_[1], "p": []}, u))
            good = good and bool(io) and all(x[0] == "call" and x[2].endswith("trailing_ones") for x in io)
        ctx.ob("pool-bits|%s|unparks-that-worker" % nm, good, "the worker that is unparked is the one whose bit was set", unp)
    # try_set_worker_inactive: clear exactly the caller's bit unless it is the only one set; report `false` exactly then
    b = P.body(PM + "try_set_worker_inactive")
    if b is None:
        ctx.missing(PM + "try_set_worker_inactive")
    else:
        cl = [c for c in P.children(b) if any(True for _ in c.aggregates(variant="Some"))]
        ok = len(cl) == 1
        sites = []
        if ok:
            c = cl[0]
            is_id = lambda x: P.resolved_origins(c, {"k": "copy", "pl": {"l": 1, "p": ["*", ["f", 0, "0", ""]]}}, None) if False else True
            seen = set()
            for r in K.ret_assigns(c):
                if r.is_term or r.node["r"]["r"] != "agg" or r.node["r"].get("variant") != "Some":
                    continue
                sites.append(r)
                vo = c.origins(r.node["r"]["ops"][0], r)
                conds = [x for x in c.conditions(r) if x.kind == "cmp"]
                bit = lambda o: is_one_shl(o, lambda x: x[0] == "proj" and x[1] == ("env",))
                cmp_ok = len(conds) == 1 and ((conds[0].data[1] == frozenset([("arg", 2)]) and len(conds[0].data[2]) == 1 and bit(next(iter(conds[0].data[2])))) or
                                              (conds[0].data[2] == frozenset([("arg", 2)]) and len(conds[0].data[1]) == 1 and bit(next(iter(conds[0].data[1])))))
                if cmp_ok and conds[0].data[0] == "==":
                    seen.add("last")
                    ok = ok and vo == frozenset([("arg", 2)])
                elif cmp_ok and conds[0].data[0] == "!=":
                    seen.add("not-last")
                    o = next(iter(vo)) if len(vo) == 1 else None
                    ok = ok and o is not None and o[0] == "bin" and o[1] == "BitAnd" and o[2] == ("arg", 2) and o[3][0] == "un" and o[3][1] == "Not" and bit(o[3][2])
                else:
                    ok = False
            ok = ok and seen == {"last", "not-last"}
        ctx.ob("pool-bits|try_set_worker_inactive|clears-own-bit-unless-last", ok,
               "the update keeps the word if it equals 1 << worker_id (the caller is the last active worker) and otherwise clears exactly bit worker_id",
               sites or [b.name])
        rets = [r for r in K.ret_assigns(b) if not r.is_term and r.node["r"]["r"] == "use" and r.node["r"]["o"].get("k") == "const"]
        good = len(rets) == 2
        for r in rets:
            val = r.node["r"]["o"].get("v")
            cs = [x for x in b.conditions(r) if x.kind == "cmp" and x.data[0] in ("==", "!=")]
            is_last = [x for x in cs if any(isinstance(o, tuple) and o[0] == "bin" and o[1] == "Shl" for o in (x.data[1] | x.data[2])) and
                       any(o[0] == "call" and o[2].endswith("fetch_update") or (o[0] == "proj") for o in (x.data[1] | x.data[2]))]
            good = good and bool(is_last) and ((is_last[-1].data[0] == "==") == (val is False))
        ctx.ob("pool-bits|try_set_worker_inactive|false-iff-last", good,
               "try_set_worker_inactive returns false exactly when the previous word was 1 << worker_id (the caller was the last active worker)", rets)
    b = P.body(PM + "set_all_workers_inactive")
    if b is not None:
        st = list(b.calls("^std::sync::atomic::Atomic::store$"))
        ctx.ob("pool-bits|set_all_workers_inactive|stores-zero", len(st) == 1 and all(o[0] == "const" and o[1] == 0 for o in b.origins(st[0].args()[1], st[0])),
               "declaring the pool idle stores 0", st)
    b = P.body(PM + "pool_is_idle")
    if b is not None:
        rets = [r for r in K.ret_assigns(b) if not r.is_term]
        ok = len(rets) == 1 and rets[0].node["r"]["r"] == "bin" and rets[0].node["r"]["op"] == "Eq" and rets[0].node["r"]["b"].get("v") == 0
        if ok:
            ao = b.origins(rets[0].node["r"]["a"], rets[0])
            ok = bool(ao) and all(o[0] == "call" and o[2].endswith("Atomic::load") and atomics.receiver_field(b, Site(b, o[1], TERM)) == "active_workers" for o in ao)
        ctx.ob("pool-bits|pool_is_idle|word-is-zero", ok, "the pool is idle iff active_workers == 0", rets)


RULES.append(("C04.q", "pool manager bit set: which bit is set, cleared, tested (operand level)", rule_pool_bits))


def rule_task_handover(ctx):
    """schedule_task (multi-threaded): no Runnable is lost when the fast slot and the local queue overflow. The task displaced from the
    fast slot is pushed to the local queue; if that is full, exactly one bucket's worth of tasks is drained into a Bucket that goes
    to the injector and the displaced task is pushed again (or, failing the drain, inserted into the injector itself)."""
    P = ctx.prog
    bs = [b for b in P.all_bodies() if b.name.startswith("executor::mt_executor::schedule_task") and any(True for _ in b.calls(r"st3::fifo::Worker::drain$"))]
    if len(bs) != 1:
        return ctx.missing("the body of mt_executor::schedule_task that drains the local queue")
    b = bs[0]
    drains = list(b.calls(r"st3::fifo::Worker::drain$"))
    ok = len(drains) == 1
    sites = list(drains)
    if ok:
        cnt = [P.body(norm(g)) for g in (drains[0].node.get("gdefs") or [])]
        cnt = [c for c in cnt if c is not None]
        ok = len(cnt) == 1
        if ok:
            rets = K.ret_assigns(cnt[0])
            ok = len(rets) == 1 and rets[0].is_term and (rets[0].callee or "").endswith("injector::Bucket::capacity")
            sites += rets
    ctx.ob("handover|drain-count-is-bucket-capacity", ok,
           "when the local queue is full, exactly Bucket::capacity() tasks are drained (a Bucket built from the drain keeps only that many; the rest "
           "would be dropped, which cancels them)", sites)
    pb = list(b.calls(r"injector::Injector::push_bucket$"))
    fi = [s for s in b.calls(r"from_iter$") if "Bucket" in ((s.node.get("resolved_n") or "") + (s.node.get("dty") or "") + (s.callee or ""))]
    ok = len(pb) == 1 and len(fi) == 1 and drains and b.origins(pb[0].args()[1], pb[0]) == frozenset([("call", fi[0].b, fi[0].callee)])
    if ok:
        fo = b.origins(fi[0].args()[0], fi[0])
        ok = bool(fo) and all(origin_proj_names(o)[0] == ("call", drains[0].b, drains[0].callee) for o in fo)
    ctx.ob("handover|drained-tasks-go-to-the-injector", ok, "the bucket pushed to the injector is built from the drained tasks", pb + fi)
    rep = list(b.calls(r"^std::cell::Cell::replace$"))
    pushes = list(b.calls(r"st3::fifo::Worker::push$"))
    ins = list(b.calls(r"injector::Injector::insert_task$"))
    ok = len(rep) == 1 and len(pushes) == 2 and len(ins) == 1
    if ok:
        first = [p for p in pushes if all(origin_proj_names(o)[0] == ("call", rep[0].b, rep[0].callee) for o in b.origins(p.args()[1], p))]
        ok = len(first) == 1
        if ok:
            f = first[0]
            second = [p for p in pushes if p.key() != f.key()][0]
            err_of_first = lambda os_: bool(os_) and all(origin_proj_names(o)[0] == ("call", f.b, f.callee) and origin_proj_names(o)[1][:1] == [("d", "Err")] for o in os_)
            ok = err_of_first(b.origins(second.args()[1], second)) and err_of_first(b.origins(ins[0].args()[1], ins[0]))
            # one of the two is reached on every path once the first push failed
            ok = ok and not b.path_exists_to_return(f, avoiding=[second, ins[0]]) or (ok and all(
                any(c.kind == "variant" and "Err" in c.data[1] for c in b.conditions(x)) for x in (second, ins[0])))
    ctx.ob("handover|displaced-task-requeued", ok,
           "the task displaced from the fast slot is pushed to the local queue; the task handed back by a failed push is pushed again after the "
           "drain or inserted into the injector", rep + pushes + ins)


def rule_search_handover(ctx):
    """the worker's search stage: the bucket popped from the injector is the one appended to the local queue (after waiting for room
    for exactly that bucket), and the task returned by a successful steal is the one placed in the fast slot"""
    P = ctx.prog
    ws = [w for w in P.all_bodies() if w.name.startswith("executor::mt_executor::run_local_worker") and any(True for _ in w.calls(r"Injector::pop_bucket$"))]
    if len(ws) != 1:
        return ctx.missing("the worker body that pops buckets from the injector")
    w = ws[0]
    pops = list(w.calls(r"Injector::pop_bucket$"))
    ext = list(w.calls(r"st3::fifo::Worker::extend$"))
    lens = list(w.calls(r"ExactSizeIterator::len$"))
    ok = len(pops) == 1 and len(ext) == 1

    def from_pop(os_):
        return bool(os_) and all(origin_proj_names(o)[0] == ("call", pops[0].b, pops[0].callee) and origin_proj_names(o)[1][:1] == [("d", "Some")] for o in os_)
    if ok:
        ok = from_pop(w.origins(ext[0].args()[1], ext[0])) and bool(lens) and all(from_pop(w.origins(l.args()[0], l)) for l in lens)
        ok = ok and any(c.kind == "variant" and c.data[1] == {"Some"} for c in w.conditions(ext[0]))
    ctx.ob("handover|popped-bucket-extends-local-queue", ok,
           "the tasks of the popped bucket are appended to this worker's local queue, after waiting for room for that bucket's length", pops + ext + lens)
    st = [(b, s) for b in P.family(w) for s in b.calls(r"Stealer::steal_and_pop$")]
    rp = [(b, s) for b in P.family(w) for s in b.calls(r"^std::cell::Cell::replace$")]
    ok = len(st) == 1 and len(rp) >= 1
    good = False
    for b, s in rp:
        for o in b.origins(s.args()[1], s):
            if o[0] == "agg" and o[4] == "Some":
                a = Site(b, o[1], o[2])
                to = b.origins(a.node["r"]["ops"][0], a)
                # the closure given to Result::map receives (task, count): the task is component 0 of its argument
                if to and all(origin_proj_names(x)[0] == ("arg", 2) and origin_proj_names(x)[1][:1] == [("f", "0")] for x in to):
                    good = True
    ctx.ob("handover|stolen-task-goes-to-fast-slot", ok and good,
           "the task handed back by a successful steal_and_pop is stored in the fast slot (component 0 of the steal result)", [s for _, s in st + rp])


RULES.append(("C04.r", "schedule_task hand-over conserves tasks (operand level)", rule_task_handover))
RULES.append(("C04.s", "search stage: popped bucket and stolen task reach the worker's queues (operand level)", rule_search_handover))


def rule_executor_identity(ctx):
    """A woken task is queued on the executor it was spawned on: every executor takes a fresh identity from the global counter, tags
    the tasks it spawns with it, and its scheduling function compares the tag of the task with the identity of the executor whose
    worker performs the wake-up (a mismatch panics instead of letting another pool adopt the task - a task adopted by a foreign
    pool runs outside its own executor's quiescence detection, active-task list and cancellation)."""
    P = ctx.prog
    n = 0
    for mod in ("mt_executor", "st_executor"):
        b = ctx.body("executor::%s::Executor::new" % mod)
        cn = ctx.body("executor::%s::ExecutorContext::new" % mod)
        if b is None or cn is None:
            continue
        news = list(b.calls(r"ExecutorContext::new$"))
        ok = len(news) == 1
        if ok:
            o = b.origins(news[0].args()[0], news[0])
            ok = len(o) == 1 and next(iter(o))[0] == "call" and next(iter(o))[2].endswith("Atomic::fetch_add")
            if ok:
                fa = Site(b, next(iter(o))[1], TERM)
                ok = b.origins(fa.args()[0], fa) == frozenset([("static", "executor::NEXT_EXECUTOR_ID")]) and not b.in_loop(fa)
                inc = const_eval_set(b.origins(fa.args()[1], fa))
                ok = ok and inc == 1
        ctx.ob("executor-identity|%s|fresh-id-from-global-counter" % mod, ok,
               "the executor's identity is the value returned by NEXT_EXECUTOR_ID.fetch_add(1)", news)
        aggs = [a for a in cn.aggregates() if (a.node["r"].get("adt") or "").endswith("ExecutorContext")]
        ok = len(aggs) == 1
        if ok:
            fo = dict(zip(aggs[0].node["r"]["fields"], aggs[0].node["r"]["ops"]))
            ok = "executor_id" in fo and cn.origins(fo["executor_id"], aggs[0]) == frozenset([("arg", 1)])
        ctx.ob("executor-identity|%s|context-stores-id" % mod, ok, "ExecutorContext::new stores the identity it is given", aggs)
        tags = []
        for bb in P.all_bodies():
            if not bb.name.startswith("executor::%s::" % mod) or "::tests" in bb.name:
                continue
            for s in bb.calls(r"^executor::task::(spawn|spawn_and_forget)$"):
                o = bb.origins(s.args()[2], s)
                good = bool(o) and all(origin_proj_names(x)[1][-1:] == [("f", "executor_id")] and origin_proj_names(x)[0] == ("arg", 1) for x in o)
                tags.append(s)
                ctx.ob("executor-identity|%s|spawn-tags-own-id|%s" % (mod, last_seg(bb.name)), good, "a spawned task is tagged with the spawning executor's identity", [s])
        ctx.ob("floor|executor-identity|%s|spawn-sites" % mod, len(tags) >= 2, "expected >= 2 spawn sites per executor (found %d)" % len(tags))
        st = ctx.body("executor::%s::schedule_task" % mod)
        if st is not None:
            found = False
            sites = []
            for x in P.family(st):
                for blk in sorted(x.live_blocks):
                    if x.blocks[blk]["term"]["t"] != "switch" or len(x.succ[blk]) < 2:
                        continue
                    c = Cond(x, blk, x.succ[blk][0])
                    if c.kind != "cmp" or c.data[0] not in ("==", "!="):
                        continue
                    sides = []
                    for side in (c.data[1], c.data[2]):
                        r = set()
                        for o in side:
                            y = P.resolve_env(x, o)
                            if isinstance(y, tuple) and y and y[0] == "captured":
                                y = y[1]
                            r.add(y)
                        sides.append(r)
                    tag = [i for i, sd in enumerate(sides) if sd == {("arg", 2)}]
                    own = [i for i, sd in enumerate(sides) if sd and all(origin_proj_names(y)[1][-1:] == [("f", "executor_id")] for y in sd)]
                    if tag and own and tag[0] != own[0]:
                        # the mismatch edge diverges (panic)
                        found = True
                        sites.append(c.site)
            ctx.ob("executor-identity|%s|wake-compares-tag-with-own-id" % mod, found,
                   "schedule_task compares the task's executor tag with the identity of the executor performing the wake-up", sites or [st.loc()])
            n += 1
    ctx.ob("floor|executor-identity", n == 2, "both executors are analysed (found %d)" % n)


RULES.append(("C04.t", "a woken task is queued on the executor it was spawned on (unique executor identities, tagged tasks, tag compared at wake-up)", rule_executor_identity))
