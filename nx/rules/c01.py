"""C01 Chronological execution — structural clauses a..i (DESIGN.md section 5, C01)."""
from ..core import Site, TERM, norm, origin_calls, origin_proj_names, last_seg
from . import common as K

EXPLANATION = (
    "Decides the structural, all-paths clauses that chronological execution depends on: who may "
    "write the simulation time, that handles only hold readers, that every insertion into the "
    "scheduler queue is guarded by `deadline > now` read under the queue lock, that step_until "
    "rejects past targets without effect, that the stepping function writes exactly the peeked "
    "key's time (<= bound, non-cancelled) before spawning/running, that step_until returns Ok only "
    "at the target time, that process* cannot reach a time write, and that every time write of "
    "Simulation happens with the scheduler-queue lock held. NOT decided: that each action actually "
    "runs at that time under every executor schedule (behaviour over runtime schedules)."
)
TRUSTED = K.TRUSTED


def sim_time_write_sites(prog):
    out = []
    for b in prog.all_bodies():
        for s in b.calls(K.TIME_WRITE):
            out.append(s)
    return out


# -- a: who may write the time -------------------------------------------------
def rule_a(ctx):
    P = ctx.prog
    sites = sim_time_write_sites(P)
    if not sites:
        return ctx.missing("call sites of SyncCell::write")
    allowed_roots = {"simulation::sim_init::SimInit::init"}
    for s in sites:
        b = s.body
        ok = K.in_family(P, b, allowed_roots) or any(x is b for x in K.sim_bodies(P))
        ctx.ob(
            "time-writer|%s" % K.owner_fn(P, b).name,
            ok,
            "SyncCell::write (the simulation time) may only be called from impl Simulation or SimInit::init",
            [s],
        )
    stores = P.callers_of(r"TearableAtomic::tearable_store$")
    if not stores:
        ctx.missing("call sites of TearableAtomic::tearable_store")
    for b, s in stores:
        ctx.ob(
            "tearable-store|%s" % b.name,
            b.name == K.TIME_WRITE,
            "tearable_store may only be called from SyncCell::write",
            [s],
        )


# -- b: handles hold readers; SyncCell is neither Clone nor Sync -----------------
def rule_b(ctx):
    P = ctx.prog
    sc = P.adts.get("util::sync_cell::SyncCell")
    if not sc:
        return ctx.missing("adt util::sync_cell::SyncCell")
    ctx.ob("synccell-not-clone", not sc["impls"]["Clone"], "SyncCell must not be Clone (single writer)", ["adt SyncCell at %s:%s" % (sc["file"], sc["line"])])
    ctx.ob("synccell-not-sync", not sc["impls"]["Sync"], "SyncCell must not be Sync (single writer)", ["adt SyncCell at %s:%s" % (sc["file"], sc["line"])])
    ctx.ob("synccell-not-copy", not sc["impls"]["Copy"], "SyncCell must not be Copy", ["adt SyncCell"])
    holders = []
    for name, a in P.adts.items():
        if name.startswith("util::sync_cell::"):
            continue
        for v in a["variants"]:
            for f in v["fields"]:
                t = f["ty"].replace("SyncCellReader<", "READER<")
                if "SyncCell<" in t:
                    holders.append((name, f["name"], a))
    if not holders:
        ctx.missing("a struct holding the SyncCell time")
    allowed = {"simulation::Simulation", "simulation::sim_init::SimInit"}
    for name, fname, a in holders:
        ctx.ob(
            "synccell-holder|%s.%s" % (name, fname),
            name in allowed,
            "only Simulation and SimInit may own the writable time cell; handles must hold a SyncCellReader",
            ["field %s.%s at %s:%s" % (name, fname, a["file"], a["line"])],
        )
    # user-reachable handles hold readers
    for h in ("simulation::scheduler::GlobalScheduler",):
        a = P.adts.get(h)
        if not a:
            ctx.missing("adt " + h)
            continue
        tys = [f["ty"] for v in a["variants"] for f in v["fields"]]
        ctx.ob("handle-reader|" + h, any("SyncCellReader<" in t for t in tys), "GlobalScheduler reads the time through a SyncCellReader", ["adt %s" % h])


# -- c: insertions into the scheduler queue are guarded by deadline > now --------
def sched_insert_sites(prog):
    out = []
    for b in prog.all_bodies():
        for s in b.calls(K.PQ_INSERT):
            tys = s.node.get("argtys", [])
            if tys and K.is_sched_queue_ty(tys[0]):
                out.append(s)
    return out


def classify_insert(site):
    """'deadline' if key.0 derives from Deadline::into_time, 'reinsert' if from a pulled key + period."""
    body = site.body
    key_or = K.call_arg_origins(site, 1)
    # key is a tuple aggregate: look at component 0
    comp0 = set()
    for o in key_or:
        if o[0] == "agg":
            s = Site(body, o[1], o[2])
            r = s.node["r"]
            if r.get("kind") == "tuple" and r["ops"]:
                comp0 |= body.origins(r["ops"][0], s)
                continue
        comp0.add(("unknown", "key-not-tuple"))
    calls = [c for o in comp0 for c in origin_calls(o)]
    if comp0 and all(o[0] == "call" and o[2] == K.INTO_TIME for o in comp0):
        return "deadline", comp0
    if comp0 and all(o[0] == "call" and o[2] == "std::ops::Add::add" for o in comp0):
        return "reinsert", comp0
    return "unknown", comp0


def rule_c(ctx):
    P = ctx.prog
    sites = sched_insert_sites(P)
    n_deadline = 0
    for s in sites:
        kind, comp0 = classify_insert(s)
        b = s.body
        fn = K.owner_fn(P, b).name
        if kind == "reinsert":
            # judged by C10.a; here only: it must be the pull helper of the stepping function
            ctx.ob("insert-class|%s" % fn, b.impl_self is None and fn.startswith(K.SIM + "::"),
                   "a re-insertion (key = pulled time + period) is only allowed in the stepping function of Simulation", [s])
            continue
        if kind != "deadline":
            ctx.ob("insert-class|%s" % fn, False,
                   "insertion into the scheduler queue whose key time is neither Deadline::into_time(..) nor pulled time + period: "
                   "cannot show deadline > now (origin %s)" % K.describe_origin(frozenset(comp0)), [s])
            continue
        n_deadline += 1
        into = next(iter(comp0))
        into_site = Site(b, into[1], TERM)
        now_or = K.call_arg_origins(into_site, 1)
        time_or = frozenset(comp0)
        now_is_read = bool(now_or) and all(o[0] == "call" and o[2] in K.TIME_READS for o in now_or)
        ctx.ob("now-is-time-read|%s" % fn, now_is_read,
               "the `now` passed to Deadline::into_time must be the simulation time read (got %s)" % K.describe_origin(now_or), [into_site])
        conds = b.conditions(s)
        ok = any(
            K.cmp_implies(c, "<", lambda x: x == now_or, lambda y: y == time_or)
            for c in conds
        )
        ctx.ob("deadline-gt-now|%s" % fn, ok,
               "PriorityQueue::insert must be guarded by `now < deadline` (strict) with now = time read, deadline = into_time(deadline, now)",
               [s] + [c.site for c in conds if c.kind == "cmp"])
        # the rejecting branch reaches no insert
        for c in conds:
            if c.kind == "cmp" and K.cmp_implies(c, "<", lambda x: x == now_or, lambda y: y == time_or):
                others = [t for t in b.succ[c.b] if t != c.tgt]
                leak = False
                for t in others:
                    r = b.reachable(t)
                    if s.b in r:
                        leak = True
                ctx.ob("reject-no-insert|%s" % fn, not leak, "the rejecting branch of the deadline test must not reach the insertion", [c.site])
    ctx.ob("floor|deadline-inserts", n_deadline >= 5,
           "expected at least the 5 schedule*_from insertion sites guarded by a deadline test (found %d)" % n_deadline,
           [s for s in sites])


# -- d: step_until rejects a past target without effect ---------------------------
def effect_callees(prog):
    """crate-local functions that (transitively) write the time, spawn, run or synchronise."""
    targets = {K.TIME_WRITE, K.CLOCK_SYNC, K.EXEC_RUN} | K.SPAWNS
    cg = prog.callgraph()
    eff = set()
    # direct
    for b in prog.all_bodies():
        for s in b.calls():
            if s.callee in targets:
                eff.add(b.name)
    changed = True
    while changed:
        changed = False
        for n, cs in cg.items():
            if n not in eff and cs & eff:
                eff.add(n)
                changed = True
    return eff | targets


def effect_sites(prog, body, eff=None):
    eff = eff or effect_callees(prog)
    out = []
    for s in body.calls():
        c = s.callee
        r = s.resolved
        if c in eff or (r and r in eff):
            out.append(s)
    return out


def rule_d(ctx):
    P = ctx.prog
    b = ctx.body(K.SIM + "::step_until")
    if not b:
        return
    eff = effect_sites(P, b)
    into = list(b.calls(K.INTO_TIME))
    if not eff or not into:
        return ctx.missing("step_until: effect call / into_time")
    target_or = frozenset([("call", into[0].b, K.INTO_TIME)])
    now_or = K.call_arg_origins(into[0], 1)
    ctx.ob("now-is-time-read", bool(now_or) and all(o[0] == "call" and o[2] in K.TIME_READS for o in now_or),
           "step_until: `now` must be the simulation time read", [into[0]])
    for s in eff:
        conds = b.conditions(s)
        ok = any(K.cmp_implies(c, ">=", lambda x: x == target_or, lambda y: y == now_or) for c in conds)
        ctx.ob("effect-guarded|%s" % last_seg(s.callee), ok,
               "step_until: every effect (time write / spawn / run / synchronize) must lie on the `target >= now` side", [s])
    # Err(InvalidDeadline) exists on the other side
    errs = list(b.aggregates(adt="simulation::ExecutionError", variant="InvalidDeadline"))
    ctx.ob("invalid-deadline-reported", len(errs) >= 1 and all(
        any(K.cmp_implies(c, "<", lambda x: x == target_or, lambda y: y == now_or) for c in b.conditions(e)) for e in errs),
        "step_until: InvalidDeadline is built exactly under `target < now`", errs)


# -- e/f: the stepping function -------------------------------------------------
def stepping_fns(prog):
    """functions of impl Simulation that both call the time write and pull from the queue
    (directly or through nested helpers)."""
    out = []
    for b in prog.all_bodies():
        if b.impl_self != K.SIM or b.impl_trait is not None:
            continue
        fam = prog.family(b)
        writes = [s for s in b.calls(K.TIME_WRITE)]
        pulls = [s for x in fam for s in x.calls(K.PQ_PULL)]
        if writes and pulls:
            out.append(b)
    return out


def peek_helper_of(prog, body, write_site):
    """Resolve the helper whose Some(key) result feeds the time write: returns (helper body, call site)."""
    val = K.call_arg_origins(write_site, 1)
    res = []
    for o in val:
        root, names = origin_proj_names(o)
        if root[0] == "call":
            cs = Site(body, root[1], TERM)
            helper = None
            r = cs.resolved
            if r and prog.body(r):
                helper = prog.body(r)
            res.append((helper, cs, names))
        else:
            res.append((None, None, names))
    return res


def rule_e(ctx):
    P = ctx.prog
    fns = stepping_fns(P)
    if not fns:
        return ctx.missing("stepping function (impl Simulation fn that writes the time and pulls from the queue)")
    for b in fns:
        for w in b.calls(K.TIME_WRITE):
            infos = peek_helper_of(P, b, w)
            ok_shape = bool(infos) and all(h is not None and names == [("d", "Some"), ("f", "0"), ("f", "0")] for h, cs, names in infos)
            ctx.ob("written-time-is-peeked-key|%s" % b.name, ok_shape,
                   "the time written by the stepping function must be component .0 of the Some(key) returned by the peek helper (origin %s)"
                   % K.describe_origin(K.call_arg_origins(w, 1)), [w])
            for h, cs, names in infos:
                if h is None:
                    continue
                check_peek_helper(ctx, P, b, h)


def check_peek_helper(ctx, P, stepping, h):
    """helper returns Some(key) only if key.0 <= bound and the action is not cancelled; key = peeked key."""
    rets = K.ret_assigns(h)
    somes = [s for s in rets if not s.is_term and s.node["r"]["r"] == "agg" and s.node["r"].get("variant") == "Some"]
    if not somes:
        return ctx.missing("peek helper returns Some(key): " + h.name)
    for s in somes:
        key_or = h.origins(s.node["r"]["ops"][0], s)
        from_peek = bool(key_or) and all(
            origin_proj_names(o)[0][0] == "call" and origin_proj_names(o)[0][2] == K.PQ_PEEK
            and origin_proj_names(o)[1] == [("d", "Some"), ("f", "0"), ("f", "0")] for o in key_or)
        ctx.ob("helper-key-from-peek|%s" % h.name, from_peek,
               "the key returned by the peek helper must be the key returned by PriorityQueue::peek (origin %s)" % K.describe_origin(key_or), [s])
        conds = h.conditions(s)
        # key.0 <= bound
        def is_key_time(x):
            return bool(x) and all(
                origin_proj_names(o)[0][0] == "call" and origin_proj_names(o)[0][2] == K.PQ_PEEK
                and origin_proj_names(o)[1] == [("d", "Some"), ("f", "0"), ("f", "0"), ("f", "0")] for o in x)

        def is_bound(x):
            # captured upper bound (closure env) or a parameter
            return bool(x) and all(origin_proj_names(o)[0][0] in ("env", "arg") for o in x)

        ok_bound = any(K.cmp_implies(c, "<=", is_key_time, is_bound) for c in conds)
        ctx.ob("helper-bound|%s" % h.name, ok_bound,
               "Some(key) may only be returned under `key.0 <= upper bound`", [s] + [c.site for c in conds if c.kind == "cmp"])
        ok_cancel = any(c.kind == "call" and c.data[0] == "simulation::scheduler::Action::is_cancelled" and c.data[1] is False for c in conds)
        ctx.ob("helper-not-cancelled|%s" % h.name, ok_cancel,
               "Some(key) may only be returned for an action whose is_cancelled() is false", [s])
    # a cancelled head is pulled (discarded), not returned
    for p in h.calls(K.PQ_PULL):
        conds = h.conditions(p)
        ok = any(c.kind == "call" and c.data[0] == "simulation::scheduler::Action::is_cancelled" and c.data[1] is True for c in conds)
        ctx.ob("helper-discards-only-cancelled|%s" % h.name, ok,
               "the peek helper may only discard (pull) an action whose is_cancelled() is true", [p])


def rule_f(ctx):
    P = ctx.prog
    fns = stepping_fns(P)
    if not fns:
        return ctx.missing("stepping function")
    for b in fns:
        writes = list(b.calls(K.TIME_WRITE))
        later = [s for s in b.calls() if s.callee in K.SPAWNS or s.callee in (K.SIM_RUN, K.CLOCK_SYNC)]
        pulls = [s for s in b.calls() if s.resolved and P.body(s.resolved) and any(True for _ in P.body(s.resolved).calls(K.PQ_PULL))
                 and not any(True for _ in P.body(s.resolved).calls(K.PQ_PEEK))]
        if not later:
            ctx.missing("spawn/run sites in " + b.name)
        for s in later + pulls:
            ok = any(b.dominates(w, s) for w in writes)
            ctx.ob("write-before|%s|%s" % (b.name, last_seg(s.callee) if s.callee else "?"), ok,
                   "in the stepping function the time write must dominate every pull-for-execution, spawn, synchronize and run", [s])


# -- g: step_until returns Ok only at the target ---------------------------------
def step_until_loop_fn(prog):
    """the function of impl Simulation that calls a stepping fn in a loop with a target bound."""
    st = set(b.name for b in stepping_fns(prog))
    out = []
    for b in prog.all_bodies():
        if b.impl_self != K.SIM:
            continue
        if b.name in st:
            continue
        if any(s.callee in st for s in b.calls()) and any(True for _ in b.calls(K.TIME_WRITE)):
            out.append(b)
    return out


def rule_g(ctx):
    P = ctx.prog
    fns = step_until_loop_fn(P)
    if not fns:
        return ctx.missing("step_until loop function (calls the stepping fn and writes the target time)")
    st = set(b.name for b in stepping_fns(P))
    for b in fns:
        target = ("arg", 2)
        oks = [s for s in K.ret_assigns(b) if K.result_variant_of_ret(s) == "Ok"]
        if not oks:
            ctx.missing("Ok return in " + b.name)
        writes = [w for w in b.calls(K.TIME_WRITE) if K.call_arg_origins(w, 1) == frozenset([target])]
        for s in oks:
            conds = b.conditions(s)

            def is_step_time(x):
                return bool(x) and all(
                    origin_proj_names(o)[0][0] == "call" and origin_proj_names(o)[0][2] in st
                    and origin_proj_names(o)[1] == [("d", "Ok"), ("f", "0"), ("d", "Some"), ("f", "0")] for o in x)

            at_target = any(K.cmp_implies(c, "==", is_step_time, lambda y: y == frozenset([target])) for c in conds)
            after_write = any(b.dominates(w, s) for w in writes)
            ctx.ob("ok-only-at-target|%s" % b.name, at_target or after_write,
                   "step_until may return Ok only when the last step's time equals the target or after writing the target time", [s])
        # the stepping fn is called with the target as bound
        for s in b.calls():
            if s.callee in st:
                ctx.ob("bound-is-target|%s" % b.name, K.call_arg_origins(s, 1) == frozenset([target]),
                       "the stepping function must be bounded by the target time", [s])
        # the final write happens only when nothing pending is <= target: guarded by peek()==None or key.0 > target
        for w in writes:
            conds = b.conditions(w)
            # on every path to the write: either peek returned None, or !(key.0 <= target)
            peeks = list(b.calls(K.PQ_PEEK))
            ok = bool(peeks) and all(b.dominates(p, w) for p in peeks)
            # no path from a `key.0 <= target` true-edge to the write
            leak = False
            for blk in sorted(b.live_blocks):
                t = b.blocks[blk]["term"]
                if t["t"] != "switch":
                    continue
                for tgt in b.succ[blk]:
                    from ..core import Cond
                    c = Cond(b, blk, tgt)
                    def is_peek_time(x):
                        return bool(x) and all(origin_proj_names(o)[0][0] == "call" and origin_proj_names(o)[0][2] == K.PQ_PEEK for o in x)
                    if K.cmp_implies(c, "<=", is_peek_time, lambda y: y == frozenset([target])) and not K.cmp_implies(c, ">", is_peek_time, lambda y: y == frozenset([target])):
                        # edge where a pending key <= target: must not reach the write without re-stepping
                        r = b.reachable(tgt, removed_blocks=set(x.b for x in b.calls() if x.callee in st))
                        if w.b in r:
                            leak = True
            ctx.ob("final-write-nothing-pending|%s" % b.name, ok and not leak,
                   "the target time may only be written after the queue was inspected (peek) and no pending key <= target was seen", [w] + peeks)


# -- h: process* cannot reach a time write ---------------------------------------
def rule_h(ctx):
    P = ctx.prog
    for nm in ("process", "process_event", "process_query"):
        b = ctx.body(K.SIM + "::" + nm)
        if not b:
            continue
        r = P.reach([b.name])
        writers = [n for n in r if any(True for x in P.bodies.get(n, []) for _ in x.calls(K.TIME_WRITE))]
        ctx.ob("no-time-write|%s" % nm, not writers,
               "Simulation::%s must not be able to reach a write of the simulation time (via %s)" % (nm, writers), [b.loc()])


# -- i: every time write of Simulation holds the scheduler-queue lock -----------
def rule_i(ctx):
    P = ctx.prog
    n = 0
    for b in K.sim_bodies(P):
        for w in b.calls(K.TIME_WRITE):
            n += 1
            ctx.ob("time-write-locked|%s" % K.owner_fn(P, b).name, K.queue_lock_held(b, w),
                   "Simulation writes the time only while holding the scheduler-queue mutex (else a concurrent "
                   "Scheduler::schedule_* can insert a deadline that is already in the past)", [w])
    if n < 2:
        ctx.ob("floor|sim-time-writes", False, "expected >= 2 time write sites in impl Simulation (found %d)" % n)


def rule_j(ctx):
    from . import c08
    c08.rule_a(ctx)


WITNESS = ['c01', 'c11']  # doctest filters in /verif/witness (thorough tier)

def rule_k(ctx):
    """shared clause group: how a due action gets executed (C10.a/d, C07.b/c)"""
    from . import c07, c10
    c10.rule_a(ctx)
    c10.rule_d(ctx)
    c07.rule_b(ctx)
    c07.rule_c(ctx)

def rule_l(ctx):
    from . import c04
    c04.rule_a(ctx)

RULES = [
    ("C01.l", "the computations of one time are run to quiescence before the stepping call returns (before time can advance)", rule_l),
    ("C01.k", "every due action is pulled through the helper and executed once (alone or chained in a SeqFuture)", rule_k),
    ("C01.j", "time read + insert under one hold of the queue lock", rule_j),
    ("C01.a", "who may write the time", rule_a),
    ("C01.b", "handles hold readers; SyncCell !Clone !Sync", rule_b),
    ("C01.c", "insert guarded by deadline > now", rule_c),
    ("C01.d", "step_until rejects past targets without effect", rule_d),
    ("C01.e", "written time = peeked key (<= bound, not cancelled)", rule_e),
    ("C01.f", "time write dominates pull/spawn/sync/run", rule_f),
    ("C01.g", "step_until Ok only at the target", rule_g),
    ("C01.h", "process* cannot reach a time write", rule_h),
    ("C01.i", "time writes hold the queue lock", rule_i),
]


def rule_inventory(ctx):
    from . import inventory
    inventory.check(ctx, ['sched-queue-pull', 'sched-queue-insert'])
    inventory.check_narrowing(ctx)


RULES.append(("C01.m", "state-mutation inventory: no new site that changes the content of the state this property rests on", rule_inventory))


def rule_mustpass(ctx):
    from . import mustpass
    mustpass.check(ctx, ['synccell-write-stores-value', 'synccell-write-closes-window', 'step-until-steps', 'periodic-reinserted', 'cancelled-head-discarded'])


RULES.append(("C01.n", "must-pass-through: no path around the effects this property rests on (added fast paths / early returns)", rule_mustpass))


def rule_commit(ctx):
    from . import mustpass
    for g, floor in [('sched-queue', 25), ('time-cell', 5)]:
        mustpass.commit_group(ctx, g, floor)


RULES.append(("C01.o", "branch-commit: between the decision to perform an effect and the effect there is no way out", rule_commit))


def rule_deps(ctx):
    from . import c09, c15, c20
    c20.rule_a(ctx)
    c20.rule_b(ctx)
    c09.rule_a(ctx)
    c15.rule_a(ctx)
    c15.rule_b(ctx)
    c15.rule_time_cell_fields(ctx)


RULES.append(("C01.p", "the mechanisms chronological execution rests on: queue order (C20.a/b), cancelled heads skipped (C09.a), untorn time reads (C15.a/b)", rule_deps))


def rule_deadline_impls(ctx):
    """C01.c trusts `time = deadline.into_time(now)`. The two implementations in the crate: a relative deadline is now + duration,
    an absolute one is the given time itself (a sign error or swapped operand here moves every relative deadline)."""
    P = ctx.prog
    b = ctx.body("<std::time::Duration as time::Deadline>::into_time")
    if b is not None:
        rets = K.ret_assigns(b)
        ok = len(rets) == 1 and rets[0].is_term and rets[0].callee == "std::ops::Add::add"
        if ok:
            a0, a1 = b.origins(rets[0].args()[0], rets[0]), b.origins(rets[0].args()[1], rets[0])
            ok = a0 == frozenset([("arg", 2)]) and a1 == frozenset([("arg", 1)])
        ctx.ob("deadline|duration-is-now-plus-self", ok, "Duration::into_time(self, now) = now + self", rets)
    found = False
    for n in ("<tai_time::TaiTime as time::Deadline>::into_time", "<time::MonotonicTime as time::Deadline>::into_time"):
        m = P.body(n)
        if m is None:
            continue
        found = True
        rets = K.ret_assigns(m)
        ok = len(rets) == 1 and not rets[0].is_term and rets[0].node["r"]["r"] == "use" and m.origins(rets[0].node["r"]["o"], rets[0]) == frozenset([("arg", 1)])
        ctx.ob("deadline|absolute-is-self", ok, "MonotonicTime::into_time(self, _) = self", rets)
    if not found:
        ctx.missing("impl Deadline for MonotonicTime")
    impls = [i for i in P.impls if i.get("trait") and norm(i["trait"]).endswith("time::Deadline")]
    ctx.ob("deadline|two-impls", len(impls) == 2, "the crate implements Deadline for Duration and MonotonicTime only (found %d)" % len(impls),
           ["impl %s %s:%s" % (i.get("self_head"), i.get("file"), i.get("line")) for i in impls])


RULES.append(("C01.q", "Deadline::into_time implementations (relative = now + d, absolute = itself)", rule_deadline_impls))
