"""C09 Cancellation takes effect up to the last moment — clauses a..e (DESIGN.md section 5, C09)."""
from ..core import Site, TERM, norm, origin_calls, origin_proj_names, last_seg, Cond, origin_contains
from . import common as K
from . import c01

EXPLANATION = (
    "Decides: (a) the stepping function learns about the next key only through the peek helper, which returns a key "
    "only for a non-cancelled action and discards (pulls) only cancelled heads, so a cancelled action is never chosen "
    "as the next deadline nor executed; (b) the generator of every keyed model event built by schedule_keyed*_from "
    "hands the key to send_keyed_event, whose innermost coroutine calls the input handler only on the "
    "`!key.is_cancelled()` side, evaluated inside the target model; (c) ActionKey::cancel and AutoActionKey::drop store "
    "true into the very flag ActionKey::is_cancelled loads, into_auto moves the same Arc; (d) keyed actions' "
    "is_cancelled delegates to their key, unkeyed ones return false, KeyedPeriodicAction::next clones its key, "
    "ActionKey's Clone is derived (shares the Arc), keyed actions pass their own key to the generator; (e) the key "
    "returned to the caller and the key embedded in the scheduled action are clones of one ActionKey::new(), created "
    "with the flag false. NOT decided: the run-time position of a cancel relative to processing."
)
TRUSTED = K.TRUSTED

AK = "simulation::scheduler::ActionKey"
IS_C = AK + "::is_cancelled"


def rule_a(ctx):
    P = ctx.prog
    c01.rule_e(ctx)
    # every peek of the scheduler queue inside Simulation happens in the verified helper (or the final-jump inspection)
    st = c01.stepping_fns(P)
    helpers = set()
    for b in st:
        for w in b.calls(K.TIME_WRITE):
            for h, cs, names in c01.peek_helper_of(P, b, w):
                if h is not None:
                    helpers.add(h.name)
    if not helpers:
        return ctx.missing("peek helper")
    loopfns = set(x.name for x in c01.step_until_loop_fn(P))
    for b in K.sim_bodies(P):
        for s in b.calls(K.PQ_PEEK):
            ok = b.name in helpers or b.name in loopfns
            ctx.ob("peek-site|%s" % b.name, ok,
                   "the scheduler queue may only be peeked through the helper that skips cancelled actions", [s])
    # in the stepping function, every value compared against the current key comes from the helper
    for b in st:
        for blk in sorted(b.live_blocks):
            if b.blocks[blk]["term"]["t"] != "switch":
                continue
            c = Cond(b, blk, b.succ[blk][0])
            if c.kind == "cmp" and c.data[0] in ("==", "!="):
                sides = c.data[1] | c.data[2]
                calls = set(x for o in sides for x in origin_calls(o))
                keyish = any(x[2] in ("std::ops::Fn::call", "std::option::Option::map", K.PQ_PEEK) for x in calls)
                if keyish:
                    ok = all((Site(b, x[1], TERM).resolved in helpers) for x in calls if x[2] != "std::cmp::PartialEq::eq")
                    ctx.ob("next-key-from-helper|%s" % b.name, ok, "the next key used by the stepping loop must come from the cancelled-skipping peek helper", [c.site])
            if c.kind == "variant" and any(x[2] in ("std::option::Option::map", K.PQ_PEEK) for o in c.data[0] for x in origin_calls(o)):
                ctx.ob("next-key-from-helper|%s" % b.name, False, "the next key used by the stepping loop must come from the cancelled-skipping peek helper", [c.site])


def rule_b(ctx):
    P = ctx.prog
    ske = P.body("simulation::scheduler::send_keyed_event")
    if ske is None:
        return ctx.missing("simulation::scheduler::send_keyed_event")
    fam = P.family(ske)
    calls = [(b, s) for b in fam for s in b.calls(r"ports::input::model_fn::InputFn::call$")]
    if not calls:
        return ctx.missing("InputFn::call inside send_keyed_event")
    for b, s in calls:
        conds = b.conditions(s)
        ok = False
        for c in conds:
            if c.kind == "call" and c.data[0] == IS_C and c.data[1] is False:
                ko = P.resolved_origins(b, c.data[2].args()[0], c.data[2])
                ok = True
        ctx.ob("handler-guarded-by-flag|%s" % b.name, ok, "the input handler of a keyed event is called only if the key is not cancelled", [s])
        ctx.ob("check-inside-model|%s" % b.name, b.kind == "coroutine" and b.name.count("{closure#") >= 3,
               "the flag is tested inside the future executed by the target model (last moment), not when the event is sent", [s])
    # generators of keyed model events call send_keyed_event with their key argument -- wherever the keyed action is constructed
    n = 0
    for fb in P.all_bodies():
        if "::tests" in fb.name:
            continue
        ctors = [s for s in fb.calls(r"simulation::scheduler::Keyed(Once|Periodic)Action::new$")]
        for ct in ctors:
            go = fb.origins(ct.args()[0], ct)
            kind = None
            ok = False
            sites = [ct]
            for o in go:
                if o[0] == "agg" and o[3]:
                    gb = P.body(o[3])
                    if gb is None:
                        continue
                    fam_g = P.family(gb)
                    for g in fam_g:
                        for s in g.calls(r"simulation::scheduler::process_event$"):
                            sites.append(s)
                            kind = "unkeyed-direct"
                        for s in g.calls(r"simulation::scheduler::send_keyed_event$"):
                            sites.append(s)
                            if kind is None:
                                kind = "keyed-direct"
                            if g.origins(s.args()[0], s) == frozenset([("arg", 2)]):
                                ok = True
                        if kind is None and any(True for _ in g.calls(r"ports::source::broadcaster::\w+Broadcaster::broadcast$")):
                            kind = "source-broadcast"
            if kind is None and any(True for _ in fb.calls(r"ports::source::broadcaster::\w+Broadcaster::broadcast$")):
                kind = "source-broadcast"
            if kind is None and go and all(o[0] != "agg" for o in go) and fb.name.endswith("ActionInner>::next"):
                # the action re-creating itself for the next occurrence with its own generator: covered by C10.b (next preserves generator and key)
                continue
            if kind == "source-broadcast":
                # an EventSource action: its events reach model inputs through connections, not "scheduled on a model input"
                continue
            n += 1
            ctx.ob("keyed-generator-checks-key|%s" % fb.name, ok and kind == "keyed-direct",
                   "the generator of a keyed model event must build its future with send_keyed_event(key, ..) so that the flag is "
                   "re-checked inside the model (a generator that sends with the un-keyed process_event, or in an unknown way, executes "
                   "an event cancelled at the last moment)", sites)
    # the public keyed scheduling methods reach those generators
    for fn_rx, floor in ((r"GlobalScheduler::schedule_keyed_event_from$", 2), (r"GlobalScheduler::schedule_keyed_periodic_event_from$", 2)):
        cs = [c for c in P.callers_of(fn_rx) if "::tests" not in c[0].name]
        ctx.ob("keyed-entry-points|%s" % fn_rx.split("::")[-1].rstrip("$"), len(cs) >= floor,
               "Scheduler and Context keyed scheduling methods go through the key-checking scheduling function (found %d callers)" % len(cs),
               [c[1] for c in cs])
    ctx.ob("floor|keyed-generators", n >= 2, "expected 2 keyed scheduling functions (found %d)" % n)


def rule_c(ctx):
    P = ctx.prog
    flag = frozenset([("proj", ("arg", 1), ("f", "is_cancelled"))])
    b = ctx.body(IS_C)
    if b:
        loads = list(b.calls("^std::sync::atomic::Atomic::load$"))
        ok = len(loads) == 1 and b.origins(loads[0].args()[0], loads[0]) == flag and all(r.is_term and r.key() == loads[0].key() for r in K.ret_assigns(b))
        ctx.ob("is-cancelled-loads-flag", ok, "is_cancelled returns the loaded value of self.is_cancelled", loads)
    for nm in (AK + "::cancel", "<simulation::scheduler::AutoActionKey as std::ops::Drop>::drop"):
        cb = ctx.body(nm)
        if not cb:
            continue
        st = list(cb.calls("^std::sync::atomic::Atomic::store$"))
        ok = len(st) == 1 and cb.origins(st[0].args()[0], st[0]) == flag and st[0].args()[1].get("v") is True and not cb.conditions(st[0])
        ctx.ob("sets-flag|%s" % last_seg(nm.replace(">::drop", "::drop")), ok, "stores true into the shared flag unconditionally", st)
    ia = ctx.body(AK + "::into_auto")
    if ia:
        aggs = list(ia.aggregates(adt="simulation::scheduler::AutoActionKey"))
        ok = len(aggs) == 1 and ia.origins(aggs[0].node["r"]["ops"][0], aggs[0]) == flag
        ctx.ob("into-auto-moves-arc", ok, "into_auto moves the same Arc into the managed key", aggs)
    nw = ctx.body(AK + "::new")
    if nw:
        news = list(nw.calls("^std::sync::atomic::Atomic::new$"))
        ok = len(news) == 1 and news[0].args()[0].get("v") is False
        ctx.ob("new-key-not-cancelled", ok, "a new key starts with the flag false", news)
    # nobody else writes the flag
    others = []
    for ob in P.all_bodies():
        for s in ob.calls("^std::sync::atomic::Atomic::(store|swap|fetch_or|fetch_and|compare_exchange|fetch_xor)$"):
            o = ob.origins(s.args()[0], s)
            if any(origin_proj_names(x)[1][-1:] == [("f", "is_cancelled")] for x in o) and "scheduler::" in ob.name:
                if ob.name not in (AK + "::cancel", "<simulation::scheduler::AutoActionKey as std::ops::Drop>::drop"):
                    others.append(s)
    ctx.ob("only-cancel-writes-flag", not others, "only cancel() and AutoActionKey::drop write the flag", others)


def rule_d(ctx):
    P = ctx.prog
    n_keyed = 0
    for b in P.all_bodies():
        if not (b.impl_trait and norm(b.impl_trait) == "simulation::scheduler::ActionInner"):
            continue
        selfty = norm(b.impl_self or "")
        adt = P.adts.get(selfty)
        keyed = bool(adt) and any(f["name"] == "event_key" for v in adt["variants"] for f in v["fields"])
        meth = last_seg(b.name)
        if meth == "is_cancelled":
            rets = K.ret_assigns(b)
            if keyed:
                n_keyed += 1
                ok = bool(rets) and all(r.is_term and r.callee == IS_C and b.origins(r.args()[0], r) == frozenset([("proj", ("arg", 1), ("f", "event_key"))]) for r in rets)
                ctx.ob("delegates-to-key|%s" % selfty, ok, "a keyed action reports its key's cancellation flag", rets)
            else:
                ok = bool(rets) and all(not r.is_term and r.node["r"]["r"] == "use" and r.node["r"]["o"].get("v") is False for r in rets)
                ctx.ob("unkeyed-never-cancelled|%s" % selfty, ok, "an unkeyed action is never reported cancelled", rets)
        if keyed and meth in ("into_future", "spawn_and_forget"):
            cs = list(b.calls("^std::ops::FnOnce::call_once$"))
            ok = len(cs) == 1
            if ok:
                ao = b.origins(cs[0].args()[1], cs[0])
                ok = False
                for x in ao:
                    if x[0] == "agg":
                        a = Site(b, x[1], x[2])
                        if b.origins(a.node["r"]["ops"][0], a) == frozenset([("proj", ("arg", 1), ("f", "event_key"))]):
                            ok = True
                ok = ok and b.origins(cs[0].args()[0], cs[0]) == frozenset([("proj", ("arg", 1), ("f", "gen"))])
            ctx.ob("generator-gets-own-key|%s|%s" % (selfty, meth), ok, "a keyed action builds its future from its own generator and its own key", cs)
    ctx.ob("floor|keyed-actions", n_keyed >= 2, "expected 2 keyed action types (found %d)" % n_keyed)
    # ActionKey: Clone derived, over Arc<AtomicBool>
    a = P.adts.get(AK)
    if not a:
        return ctx.missing("adt ActionKey")
    f = a["variants"][0]["fields"]
    ok = len(f) == 1 and f[0]["ty"].startswith("std::sync::Arc<std::sync::atomic::Atomic<bool>")
    ctx.ob("key-is-shared-flag", ok, "ActionKey is a single Arc<AtomicBool>", ["adt ActionKey %s:%s" % (a["file"], a["line"])])
    cl = [i for i in P.impls if norm(i["self_head"]) == AK and i.get("trait") and norm(i["trait"]) == "std::clone::Clone"]
    ctx.ob("key-clone-derived", len(cl) == 1 and cl[0]["exp"], "ActionKey's Clone is derived: a clone shares the flag", ["impl Clone %s:%s" % (i["file"], i["line"]) for i in cl])
    aa = P.adts.get("simulation::scheduler::AutoActionKey")
    if aa:
        ctx.ob("auto-key-not-clone", not aa["impls"]["Clone"], "AutoActionKey is not Clone (dropping any copy would cancel)", ["adt AutoActionKey"])
    from . import c10
    c10.rule_b(ctx)


def rule_e(ctx):
    P = ctx.prog
    n = 0
    for b in P.all_bodies():
        ctors = [s for s in b.calls(r"simulation::scheduler::Keyed(Once|Periodic)Action::new$")]
        if not ctors or (b.impl_trait and norm(b.impl_trait) == "simulation::scheduler::ActionInner"):
            continue
        for ct in ctors:
            n += 1
            ko = b.origins(ct.args()[-1], ct)
            ok_new = bool(ko) and all(x[0] == "call" and x[2] == AK + "::new" for x in ko) and len(ko) == 1
            ctx.ob("embedded-key-fresh|%s" % b.name, ok_new, "the key embedded in the action is (a clone of) a fresh ActionKey::new()", [ct])
            # returned key
            ret_ok = False
            every = True
            for r in K.ret_assigns(b):
                if r.is_term:
                    continue
                rv = r.node["r"]
                if rv["r"] == "agg" and rv.get("variant") != "Err":
                    this = False
                    for op in rv["ops"]:
                        oo = b.origins(op, r)
                        if oo == ko:
                            this = True
                        # tuple (action, key)
                        for x in oo:
                            if x[0] == "agg":
                                a = Site(b, x[1], x[2])
                                for op2 in a.node["r"]["ops"]:
                                    if b.origins(op2, a) == ko:
                                        this = True
                    ret_ok = ret_ok or this
                    every = every and this
            ret_ok = ret_ok and every
            ctx.ob("returned-key-is-same|%s" % b.name, ret_ok and ok_new, "the key handed back to the caller shares the flag of the embedded key", [ct])
    ctx.ob("floor|keyed-constructions", n >= 4, "expected >= 4 constructions of keyed actions (2 scheduling fns + 2 EventSource fns); found %d" % n)


WITNESS = ['c09']  # doctest filters in /verif/witness (thorough tier)

def rule_f(ctx):
    """shared clause group: how a due action gets executed (C10.a/d, C07.b/c)"""
    from . import c07, c10
    c10.rule_a(ctx)
    c10.rule_d(ctx)
    c07.rule_b(ctx)
    c07.rule_c(ctx)

RULES = [
    ("C09.f", "non-cancelled actions are unaffected: pull helper, chaining, SeqFuture", rule_f),
    ("C09.a", "cancelled actions are skipped when choosing the next key", rule_a),
    ("C09.b", "keyed model events re-check the flag inside the model", rule_b),
    ("C09.c", "cancel / drop set the flag that is_cancelled reads", rule_c),
    ("C09.d", "keyed actions delegate to and propagate their key", rule_d),
    ("C09.e", "returned key and embedded key share one flag", rule_e),
]


def rule_inventory(ctx):
    from . import inventory
    inventory.check(ctx, ['sched-queue-pull', 'sched-queue-insert'])


RULES.append(("C09.g", "state-mutation inventory: no new site that changes the content of the state this property rests on", rule_inventory))


def rule_mustpass(ctx):
    from . import mustpass
    mustpass.check(ctx, ['cancelled-head-discarded', 'direct-sends-await'])


RULES.append(("C09.h", "must-pass-through: no path around the effects this property rests on (added fast paths / early returns)", rule_mustpass))


def rule_commit(ctx):
    from . import mustpass
    for g, floor in [('sched-queue', 25)]:
        mustpass.commit_group(ctx, g, floor)


RULES.append(("C09.i", "branch-commit: between the decision to perform an effect and the effect there is no way out", rule_commit))


def rule_same_time_sequencing(ctx):
    """"... up to the moment that model starts processing it, e.g. by an earlier event of the same model at the same time": an earlier
    same-time event of the same model can only cancel in time if the two are processed in scheduling order, which is the C07
    mechanism (the queue key carries the scheduling model's own origin, same-key actions are chained in pull order in one task)."""
    from . import c07, c20
    c07.rule_a(ctx)
    c07.rule_b(ctx)
    c07.rule_c(ctx)
    c20.rule_a(ctx)
    c20.rule_b(ctx)


RULES.append(("C09.j", "same-time events of one model are processed in scheduling order (C07.a/b/c), so that an earlier one can cancel a later one", rule_same_time_sequencing))
