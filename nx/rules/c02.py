"""C02 Causal message ordering between models — structural clauses a..d."""
from ..core import Site, TERM, norm, origin_calls, origin_proj_names, last_seg, Cond, origin_contains
from . import common as K
from . import bcast, c12, c11

EXPLANATION = (
    "Decides: (a) a send completes only after the message is enqueued: in the predicate polled by sender_signal.wait_until, "
    "push Ok -> Some(true), Full(m) -> the message closure is put back and None is returned (retry after a slot frees), "
    "Closed -> Some(false); Sender::send returns Ok(()) exactly on the success branch; (b) Output::send, Requestor::send and "
    "UniRequestor::send await the broadcast/send future to Ready in the same coroutine and surface its result (no "
    "fire-and-forget), so the handler's next port operation starts after the message is in every recipient's mailbox; (c) a "
    "multi-recipient broadcast resolves only when every sub-send has completed (pending counter decremented only on "
    "Ready(Ok), Ok only at zero, waker re-registered before Pending); (d) per-mailbox FIFO: producers and the consumer "
    "advance their positions with the same successor function, the single consumer pops in position order, slot hand-over "
    "uses Release/Acquire stamps (C12 a,d). NOT decided: transitivity over three or more concurrently running models on all "
    "interleavings (follows from a-d only together with executor and memory-model correctness)."
)
TRUSTED = K.TRUSTED


def send_predicate(P):
    snd = P.body("channel::Sender::send::{closure#0}")
    if snd is None:
        return None, None
    for w in snd.calls("^async_event::Event::wait_until$"):
        for g in w.node.get("gdefs", []):
            pb = P.body(norm(g))
            if pb is not None and any(True for _ in pb.calls("^channel::queue::Queue::push$")):
                return snd, pb
    return snd, None


def rule_a(ctx):
    P = ctx.prog
    snd, pb = send_predicate(P)
    if snd is None or pb is None:
        return ctx.missing("Sender::send coroutine / push predicate")
    pushes = list(pb.calls("^channel::queue::Queue::push$"))
    ctx.ob("predicate|one-push", len(pushes) == 1 and not pb.in_loop(pushes[0]), "one push attempt per evaluation of the predicate", pushes)
    p = pushes[0]
    po = ("call", p.b, p.callee)
    rets = [r for r in K.ret_assigns(pb) if not r.is_term and r.node["r"]["r"] == "agg"]

    def conds_of(r):
        return pb.conditions(r)
    n_true = n_false = n_none = 0
    for r in rets:
        v = r.node["r"]["variant"]
        cs = conds_of(r)
        is_ok = any(c.kind == "variant" and c.data[1] == {"Ok"} and not c.data[2] and c.data[0] == frozenset([po]) for c in cs)
        is_err = any(c.kind == "variant" and c.data[1] == {"Err"} and not c.data[2] and c.data[0] == frozenset([po]) for c in cs)
        sub = [c for c in cs if c.kind == "variant" and not c.data[2] and c.data[1] in ({"Full"}, {"Closed"})]
        if v == "Some":
            val = r.node["r"]["ops"][0].get("v")
            if val is True:
                n_true += 1
                ctx.ob("predicate|true-iff-pushed", is_ok, "Some(true) (send complete) is returned exactly when the push succeeded", [r])
            elif val is False:
                n_false += 1
                ctx.ob("predicate|false-iff-closed", is_err and any(c.data[1] == {"Closed"} for c in sub), "Some(false) is returned exactly when the channel is closed", [r])
            else:
                ctx.ob("predicate|unexpected-some", False, "unexpected Some(..) value returned by the push predicate", [r])
        elif v == "None":
            n_none += 1
            ok = is_err and any(c.data[1] == {"Full"} for c in sub)
            ctx.ob("predicate|retry-iff-full", ok, "None (keep waiting) is returned exactly when the queue is full", [r])
            # the message closure is restored before waiting
            restores = []
            for s in pb.assigns():
                rv = s.node["r"]
                if rv["r"] == "use":
                    vo = pb.origins(rv["o"], s)
                    for o in vo:
                        if o[0] == "agg" and o[4] == "Some":
                            a = Site(pb, o[1], o[2])
                            io = pb.origins(a.node["r"]["ops"][0], a)
                            if any(origin_proj_names(x)[0] == po and ("d", "Full") in origin_proj_names(x)[1] for x in io):
                                restores.append(s)
            ok = bool(restores) and any(pb.dominates(s, r) for s in restores)
            ctx.ob("predicate|message-restored-on-full", ok, "on Full the message closure handed back by push is stored again for the next attempt (not lost)", restores or [r])
    ctx.ob("predicate|three-outcomes", n_true == 1 and n_false == 1 and n_none == 1, "the predicate has exactly the three outcomes true / false / retry", rets)
    # the message is taken exactly once per attempt
    tk = list(pb.calls("^std::option::Option::take$"))
    ctx.ob("predicate|take-once", len(tk) == 1 and pb.dominates(tk[0], p), "each attempt takes the stored message closure once", tk)
    # Sender::send: Ok iff success
    oks = [r for r in K.ret_assigns(snd) if K.result_variant_of_ret(r) == "Ok"]
    errs = [r for r in K.ret_assigns(snd) if K.result_variant_of_ret(r) == "Err"]

    def succ(r, truth):
        for c in snd.conditions(r):
            if c.kind == "bool" and c.data[1] is truth and c.data[0] and all(
                    origin_proj_names(o)[0][0] == "call" and origin_proj_names(o)[0][2] == "std::future::Future::poll" and origin_proj_names(o)[1] == [("d", "Ready"), ("f", "0")] for o in c.data[0]):
                return True
        return False
    ctx.ob("send|ok-iff-enqueued", len(oks) == 1 and succ(oks[0], True), "Sender::send returns Ok(()) exactly when the awaited predicate reported success", oks)
    ctx.ob("send|err-iff-closed", len(errs) == 1 and succ(errs[0], False), "Sender::send returns Err(SendError) exactly when the channel was closed", errs)


def rule_b(ctx):
    c11.rule_g(ctx)
    P = ctx.prog
    for root in ("ports::output::Output::send", "ports::output::Requestor::send", "ports::output::UniRequestor::send"):
        rb = P.body(root)
        if rb is None:
            ctx.missing(root)
            continue
        cors = [b for b in P.family(rb) if b.kind == "coroutine"]
        polls = [s for b in cors for s in b.calls("^std::future::Future::poll$")]
        spawns = [s for b in P.family(rb) for s in b.calls(r"spawn")]
        ctx.ob("awaited-not-spawned|%s" % root, bool(polls) and not spawns, "the send future is awaited in place, never spawned or detached", polls + spawns)


def rule_c(ctx):
    bcast.poll_rules(ctx, "output")
    bcast.output_slot_rules(ctx)
    bcast.fanout_rules(ctx, "output")


def rule_d(ctx):
    K.check_floors(ctx, "C02")
    c12.rule_a(ctx)
    c12.rule_d(ctx)


def rule_e(ctx):
    """the receiver handles messages strictly in pop order, each to completion"""
    from . import c05
    c05.recv_awaits_handler(ctx)

def rule_f(ctx):
    from . import c03
    c03.rule_b(ctx)

def rule_g(ctx):
    """a blocked sender / an idle receiver is always woken when its condition becomes true (C12.b)"""
    from . import c12
    c12.rule_b(ctx)

RULES = [
    ("C02.g", "wake-up pairing of the mailbox (a suspended sender resumes in order)", rule_g),
    ("C02.f", "every connection enqueues inside the future that the port awaits", rule_f),
    ("C02.e", "the receiver processes popped messages one at a time, to completion", rule_e),
    ("C02.a", "a send completes only after the push succeeded", rule_a),
    ("C02.b", "port sends are awaited in place", rule_b),
    ("C02.c", "a broadcast completes only when all sub-sends completed", rule_c),
    ("C02.d", "per-mailbox FIFO, single consumer", rule_d),
]



def rule_awaits(ctx):
    from . import inventory
    inventory.check_awaits(ctx, None)


RULES.append(("C02.h", "await inventory: only futures whose completion rule is covered are polled on the delivery path", rule_awaits))


def rule_mustpass(ctx):
    from . import mustpass
    mustpass.check(ctx, ['output-send-broadcasts', 'send-completes-after-wait', 'senders-create-channel-send', 'senders-await-channel-send', 'output-broadcast-polls', 'source-broadcast-polls'])


RULES.append(("C02.i", "must-pass-through: no path around the effects this property rests on (added fast paths / early returns)", rule_mustpass))


def rule_commit(ctx):
    from . import mustpass
    for spec in [('mailbox-signals', 12), ('ports', 80), ('lockfree', 9, r'^channel::queue::|^util::(task_set|cached_rw_lock)::')]:
        mustpass.commit_group(ctx, *spec)


RULES.append(("C02.j", "branch-commit: between the decision to perform an effect and the effect there is no way out", rule_commit))


def rule_scheduled_order(ctx):
    """Scheduling an event for a model is a way of sending it a message: two events that one origin schedules for the same time and
    model are sent in scheduling order, and causal order requires that they be processed in that order (the C07 mechanism: the key
    carries the origin, same-key actions are chained in pull order in one task, the batch key advances)."""
    from . import c07, c20
    c07.rule_a(ctx)
    c07.rule_b(ctx)
    c07.rule_c(ctx)
    # pull order among equal (time, origin) keys is insertion order: the queue's epoch tie-break
    c20.rule_a(ctx)
    c20.rule_b(ctx)


RULES.append(("C02.k", "same-time scheduled events of one origin are sequenced (C07.a/b/c) in insertion order (C20.a/b)", rule_scheduled_order))
