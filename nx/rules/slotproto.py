"""Reply slot (`util/slot.rs`): the one-shot cell that carries the replies of a driver-side query back to the caller.

Two handles share one heap cell and a two-bit state (CLOSED = one side is gone, POPULATED = a value is inside). The side that
finds CLOSED already set by the *other* side is the one that frees the cell - exactly one of the two, whatever the interleaving.
The rules below are decided per acyclic CFG path of the four functions that touch the state (`SlotWriter::write`, the two Drop
impls, `SlotReader::try_read`): for every path the guards taken are evaluated as bit facts about the state value they test.

  * the cell is freed on a path  <=>  the path established that CLOSED was set in a state value it observed;
  * a path that does not free the cell handed it over: its last read-modify-write ORs CLOSED in and saw CLOSED clear;
  * a value inside the cell is dropped exactly when the cell is freed and a value is known to be inside (just written by this
    path, or POPULATED seen set); it is dropped before the cell is freed; a path that frees the cell without knowing whether a
    value is inside exists only in the writer's Drop (the writer is consumed by `write`, so no value can be inside);
  * `write` publishes with one fetch_or of POPULATED|CLOSED after writing the value and fails exactly when it freed the cell;
  * `try_read` returns a value only when POPULATED was seen set, then stores CLOSED alone (clears POPULATED, keeps CLOSED) and
    reads the value once; it reports NoValue exactly for the all-zero state and Closed otherwise.
"""
from ..core import Site, TERM, Cond, SWAP
from .. import atomics
from ..masks import const_eval, const_eval_set, masked
from . import common as K

SL = "util::slot::"
FNS = {
    "write": SL + "SlotWriter::write",
    "wdrop": "<util::slot::SlotWriter as std::ops::Drop>::drop",
    "read": SL + "SlotReader::try_read",
    "rdrop": "<util::slot::SlotReader as std::ops::Drop>::drop",
}
ATOM = "std::sync::atomic::Atomic::"
MAX_PATHS = 400


def _paths(body):
    """acyclic entry->return block paths (normal edges only)."""
    rets = set(body.return_blocks())
    out = []

    def walk(b, path, seen):
        if len(out) > MAX_PATHS:
            return
        path = path + [b]
        if b in rets:
            out.append(path)
            return
        for s in body.succ[b]:
            if s not in seen:
                walk(s, path, seen | {s})
    walk(0, [], {0})
    return out


def _state_site(body, s):
    return s.is_term and s.node["t"] == "call" and (s.callee or "").startswith(ATOM) and atomics.receiver_field(body, s) == "state"


def _cmp_facts(cond, obs_keys):
    """(observation origins, mask, op, value) of a guard `(X & mask) op value` or `X op value` where X is one or several observed
    state values (a re-assigned `state` variable has several reaching observations; the path decides which one is meant)."""
    if cond.kind != "cmp":
        return None
    op, A, B, _ = cond.data
    for (o, x, y) in ((op, A, B), (SWAP[op], B, A)):
        v = const_eval_set(y)
        if v is None or not x:
            continue
        ms = set()
        xs = set()
        for t in x:
            m = masked(t)
            if m is not None:
                xs.add(m[0])
                ms.add(m[1])
            else:
                xs.add(t)
                ms.add((1 << 64) - 1)
        if len(ms) != 1:
            continue
        flat = set()
        for t in xs:
            if isinstance(t, tuple) and t and t[0] == "multi":
                flat |= set(t[1])
            else:
                flat.add(t)
        xs = flat
        if all(t in obs_keys for t in xs):
            return xs, next(iter(ms)), o, v
    return None


def _bits(mask, op, value, known, bits=(1, 2)):
    """update `known` (bit -> 0/1) from a comparison on the masked value."""
    full = (1 << 64) - 1
    if op == "==":
        if mask == full:
            for bit in bits:
                known[bit] = 1 if value & bit else 0
            known["zero"] = (value == 0)
        else:
            for bit in bits:
                if mask & bit:
                    known[bit] = 1 if value & bit else 0
    elif op == "!=":
        if mask == full and value == 0:
            known["zero"] = False
        elif mask in bits:
            if value == 0:
                known[mask] = 1
            elif value == mask:
                known[mask] = 0


def _analyse(ctx, body, C):
    """per path: events in order and the bit facts established for each observation."""
    res = []
    obs_keys = {}
    for s in body.sites():
        if _state_site(body, s) and s.callee.split("::")[-1] in ("load", "fetch_or", "fetch_and", "swap", "fetch_update", "compare_exchange"):
            obs_keys[("call", s.b, s.callee)] = s
    for p in _paths(body):
        ev = []
        facts = {}  # observation key -> {bit: 0/1}
        order = []  # observation keys in path order
        for i, b in enumerate(p):
            blk = body.blocks[b]
            for j, st in enumerate(blk["stmts"]):
                if st.get("s") == "assign" and st["p"]["l"] == 0 and not st["p"]["p"]:
                    v = K.result_variant_of_ret(Site(body, b, j))
                    if v:
                        ev.append(("ret", v, Site(body, b, j)))
            t = blk["term"]
            ts = Site(body, b, TERM)
            if t["t"] == "call":
                c = ts.callee or ""
                if _state_site(body, ts):
                    k = ("call", b, c)
                    if k in obs_keys:
                        order.append(k)
                    ev.append(("atomic", c.split("::")[-1], ts))
                elif c == "std::boxed::Box::from_raw":
                    ev.append(("free", None, ts))
                elif c.endswith("Inner::drop_value_in_place"):
                    ev.append(("dropval", None, ts))
                elif c.endswith("Inner::write_value"):
                    ev.append(("writeval", None, ts))
                elif c.endswith("Inner::read_value"):
                    ev.append(("readval", None, ts))
            elif t["t"] == "switch" and i + 1 < len(p) and len(body.succ[b]) >= 2:
                cf = _cmp_facts(Cond(body, b, p[i + 1]), obs_keys)
                if cf:
                    xs, mask, op, value = cf
                    # the observation meant on this path: the latest one among the reaching ones
                    on_path = [k for k in order if k in xs]
                    if on_path:
                        _bits(mask, op, value, facts.setdefault(on_path[-1], {}), (C["CLOSED"], C["POPULATED"]))
        res.append((p, ev, facts, order))
    return res, obs_keys


def rules(ctx):
    P = ctx.prog
    C = {}
    for nm in ("CLOSED", "POPULATED"):
        it = P.items.get(SL + nm)
        C[nm] = it["v"] if it else None
    if C["CLOSED"] is None or C["POPULATED"] is None:
        return ctx.missing("slot state constants CLOSED / POPULATED")
    CL, PO = C["CLOSED"], C["POPULATED"]
    single = lambda v: isinstance(v, int) and v > 0 and v & (v - 1) == 0
    if not ctx.ob("slot|state-bits", single(CL) and single(PO) and CL != PO, "CLOSED and POPULATED are two distinct single bits",
                  ["const CLOSED=%s POPULATED=%s" % (CL, PO)]):
        return
    n_paths = 0
    for role, name in FNS.items():
        b = ctx.body(name)
        if b is None:
            continue
        an, obs_keys = _analyse(ctx, b, C)
        n_paths += len(an)
        ctx.ob("slot|%s|paths-enumerated" % role, 0 < len(an) <= MAX_PATHS, "the function's acyclic paths are enumerated (%d)" % len(an), [b.loc()])
        for p, ev, facts, order in an:
            kinds = [e[0] for e in ev]
            frees = [e for e in ev if e[0] == "free"]
            dropv = [e for e in ev if e[0] == "dropval"]
            wrote = [e for e in ev if e[0] == "writeval"]
            readv = [e for e in ev if e[0] == "readval"]
            rmws = [e for e in ev if e[0] == "atomic" and e[1] not in ("load", "store")]
            stores = [e for e in ev if e[0] == "atomic" and e[1] == "store"]
            closed_seen = any(f.get(CL) == 1 for f in facts.values())
            last = facts.get(order[-1], {}) if order else {}
            tag = "bb" + ">".join(str(x) for x in p)
            if role in ("write", "wdrop", "rdrop"):
                ok = len(frees) <= 1 and (len(frees) == 1) == closed_seen
                ctx.ob("slot|%s|freed-iff-other-side-closed" % role, ok,
                       "the cell is freed on a path exactly when the path saw CLOSED set by the other side (path %s: freed=%d, CLOSED seen=%s)" % (tag, len(frees), closed_seen),
                       [e[2] for e in frees] or [b.loc()])
                if not frees:
                    ho = False
                    if rmws and rmws[-1][1] == "fetch_or":
                        s = rmws[-1][2]
                        v = const_eval_set(b.origins(s.args()[1], s))
                        k = ("call", s.b, s.callee)
                        ho = v is not None and (v & CL) == CL and facts.get(k, {}).get(CL) == 0 and order and order[-1] == k
                    ctx.ob("slot|%s|kept-cell-is-handed-over" % role, ho,
                           "a path that keeps the cell alive has ORed CLOSED into the state as its last access and saw CLOSED clear before (path %s)" % tag,
                           [e[2] for e in rmws] or [b.loc()])
                # the value inside
                if wrote:
                    has_value = True
                else:
                    has_value = {1: True, 0: False}.get(last.get(PO))
                if frees:
                    if has_value is None:
                        ok = role == "wdrop" and not dropv
                        ctx.ob("slot|%s|value-dropped-iff-present" % role, ok,
                               "only the writer's Drop may free the cell without testing POPULATED (the writer is consumed by write(): no value can be inside), and it drops no value (path %s)" % tag,
                               [e[2] for e in frees])
                    else:
                        ok = (len(dropv) == 1) == has_value and len(dropv) <= 1
                        if ok and dropv:
                            ok = kinds.index("dropval") < kinds.index("free")
                        ctx.ob("slot|%s|value-dropped-iff-present" % role, ok,
                               "a freed cell's value is dropped (once, before the cell) exactly when a value is inside (path %s: value inside=%s, drops=%d)" % (tag, has_value, len(dropv)),
                               [e[2] for e in frees + dropv])
                else:
                    ctx.ob("slot|%s|value-dropped-iff-present" % role, not dropv,
                           "a path that keeps the cell alive leaves the value to the other side (path %s)" % tag, [e[2] for e in dropv] or [b.loc()])
            if role == "write":
                rets = [e[1] for e in ev if e[0] == "ret"]
                ok = len(rets) == 1 and (rets[0] == "Err") == bool(frees)
                ctx.ob("slot|write|fails-iff-reader-gone", ok, "write returns Err exactly on the path that found the reader gone (and freed the cell) (path %s: %s)" % (tag, rets), [e[2] for e in ev if e[0] == "ret"])
                ok = len(wrote) == 1 and len(rmws) == 1 and rmws[0][1] == "fetch_or" and kinds.index("writeval") < kinds.index("atomic") and not stores
                if ok:
                    s = rmws[0][2]
                    ok = const_eval_set(b.origins(s.args()[1], s)) == (CL | PO)
                ctx.ob("slot|write|publishes-populated-and-closed-after-value", ok,
                       "write stores the value, then publishes it with a single fetch_or(POPULATED|CLOSED) (path %s)" % tag, [e[2] for e in rmws + wrote])
            if role in ("wdrop", "rdrop"):
                ok = not wrote and not readv and not stores and all(e[1] == "fetch_or" for e in rmws) and len(rmws) <= 1
                if ok and rmws:
                    s = rmws[0][2]
                    ok = const_eval_set(b.origins(s.args()[1], s)) == CL
                ctx.ob("slot|%s|only-sets-closed" % role, ok, "a Drop impl changes the state only by one fetch_or(CLOSED) (path %s)" % tag, [e[2] for e in rmws + stores] or [b.loc()])
            if role == "read":
                rets = [e for e in ev if e[0] == "ret"]
                ok = len(rets) == 1 and not frees and not dropv and not wrote and not rmws
                ctx.ob("slot|read|no-ownership-change", ok, "try_read neither frees the cell nor drops the value in place (path %s)" % tag, [e[2] for e in frees + dropv + rmws] or [b.loc()])
                if len(rets) != 1:
                    continue
                if rets[0][1] == "Ok":
                    ok = last.get(PO) == 1 and len(readv) == 1 and len(stores) == 1
                    if ok:
                        s = stores[0][2]
                        ok = const_eval_set(b.origins(s.args()[1], s)) == CL and kinds.index("atomic") < kinds.index("readval")
                        # the returned value is the one read
                        ro = b.origins(rets[0][2].node["r"]["ops"][0], rets[0][2])
                        ok = ok and ro == frozenset([("call", readv[0][2].b, readv[0][2].callee)])
                    ctx.ob("slot|read|value-only-when-populated", ok,
                           "try_read returns Ok only after seeing POPULATED set; it stores CLOSED alone (POPULATED cleared, CLOSED kept) and returns the value read once (path %s)" % tag,
                           [rets[0][2]] + [e[2] for e in stores + readv])
                else:
                    ok = not readv and not stores and last.get(PO) != 1
                    ctx.ob("slot|read|failure-leaves-slot-untouched", ok, "a failing try_read has not seen POPULATED set, reads nothing and stores nothing (path %s)" % tag, [rets[0][2]])
                    # which error
                    s = rets[0][2]
                    eo = b.origins(s.node["r"]["ops"][0], s)
                    names = set()
                    for o in eo:
                        if o[0] == "agg":
                            names.add(str(o[-1]) if not isinstance(o[-1], (tuple, frozenset)) else "")
                    vname = _err_variant(b, s)
                    if vname is not None:
                        want = "NoValue" if last.get("zero") is True else "Closed"
                        ctx.ob("slot|read|error-kind", vname == want and (last.get("zero") is not None),
                               "NoValue is reported exactly for the all-zero state (writer alive, nothing written), Closed otherwise (path %s: %s)" % (tag, vname), [s])
    ctx.ob("floor|slot-paths", n_paths >= 9, "expected >= 9 paths over the four slot functions (found %d)" % n_paths)
    # users: the driver-side query path builds the slot, hands the writer to the query future and reads after the step
    K.check_floors(ctx, "SLOT")


def _err_variant(body, ret_site):
    """variant name of the ReadError put into Err(..) at ret_site."""
    op = ret_site.node["r"]["ops"][0]
    if op["k"] not in ("copy", "move") or op["pl"]["p"]:
        return None
    defs = body.reaching_defs(op["pl"]["l"], ret_site)
    names = set()
    for d in defs:
        if not d.is_term and d.node["r"]["r"] == "agg":
            names.add(d.node["r"].get("variant"))
    return next(iter(names)) if len(names) == 1 else None
