"""C08 Scheduling requests are validated and race-free — clauses a..d (DESIGN.md section 5, C08)."""
from ..core import Site, TERM, norm, origin_calls, origin_proj_names, last_seg, Cond
from . import common as K
from . import c01

EXPLANATION = (
    "Decides, for every function that inserts a deadline-keyed action into the scheduler queue: the "
    "time is read and the insertion performed while the queue mutex guard is held; the insertion is "
    "guarded by a strict `now < deadline` test whose rejecting branch reaches no insertion; a periodic "
    "action can only enter the queue past a `!period.is_zero()` test (locally built actions: on the "
    "period parameter; pre-built actions: on the period reported by Action::next); and Simulation "
    "writes the time only with the queue lock held. NOT decided: that an accepted request actually fires "
    "exactly once at its deadline on every interleaving, nor termination of stepping in general."
)
TRUSTED = K.TRUSTED

IS_ZERO = "std::time::Duration::is_zero"
ACTION_NEXT = "simulation::scheduler::Action::next"
PERIODIC_CTORS = {
    "simulation::scheduler::PeriodicAction::new",
    "simulation::scheduler::KeyedPeriodicAction::new",
}


def deadline_inserts(prog):
    return [s for s in c01.sched_insert_sites(prog) if c01.classify_insert(s)[0] == "deadline"]


def rule_a(ctx):
    P = ctx.prog
    sites = deadline_inserts(P)
    if len(sites) < 5:
        ctx.ob("floor|deadline-inserts", False, "expected >= 5 deadline-keyed insertion sites (found %d)" % len(sites), sites)
    for s in sites:
        b = s.body
        fn = K.owner_fn(P, b).name
        ctx.ob("insert-locked|%s" % fn, K.queue_lock_held(b, s),
               "the insertion must happen while the scheduler-queue guard is held", [s])
        # accepted => inserted: every Ok result of the function is produced after the insertion (an added fast path that returns Ok
        # without inserting drops an accepted request silently)
        oks = [r for r in K.ret_assigns(b) if K.result_variant_of_ret(r) == "Ok"]
        ctx.ob("ok-only-after-insert|%s" % fn, bool(oks) and all(b.dominates(s, r) for r in oks),
               "Ok(..) is returned only on paths that performed the insertion (found %d Ok sites)" % len(oks), oks or [s])
        others = [r for r in K.ret_assigns(b) if K.result_variant_of_ret(r) is None]
        ctx.ob("result-is-ok-or-err|%s" % fn, not others,
               "every result of the function is an explicit Ok(..) / Err(..) (a forwarded result would not be classified)", others or [s])
        _, comp0 = c01.classify_insert(s)
        into = next(iter(comp0))
        into_site = Site(b, into[1], TERM)
        now_or = K.call_arg_origins(into_site, 1)
        reads = [Site(b, o[1], TERM) for o in now_or if o[0] == "call" and o[2] in K.TIME_READS]
        ctx.ob("time-read-present|%s" % fn, bool(reads) and len(reads) == len(now_or),
               "the deadline must be computed from the simulation time read in the same function", [into_site])
        for r in reads:
            ctx.ob("read-locked|%s" % fn, K.queue_lock_held(b, r),
                   "the simulation time must be read while the scheduler-queue guard is held (otherwise the step can "
                   "advance time between the read and the insertion)", [r])
        # the same guard region covers both: no release between read and insert
        for r in reads:
            for g in K.queue_guard_locals(b):
                kills = [x for x in b.sites() if K.guard_kill(b, g)(x)]
                between = [k for k in kills if b.can_reach(r, k) and b.can_reach(k, s)]
                ctx.ob("no-release-between|%s" % fn, not between,
                       "the guard must not be released between the time read and the insertion", between[:3] or [s])


def rule_b(ctx):
    # deadline validation (shared with C01.c)
    c01.rule_c(ctx)


def _is_zero_conds(body, site):
    out = []
    for c in body.conditions(site):
        if c.kind == "call" and c.data[0] == IS_ZERO:
            out.append(c)
    return out


def producers_validate(P):
    """do all constructors of periodic actions (outside Action::next re-creation) sit behind `!period.is_zero()`?"""
    n = 0
    for b in P.all_bodies():
        if b.name.startswith("<simulation::scheduler::"):
            continue  # ActionInner::next re-creating itself from an already validated period
        for c in b.calls():
            if c.callee not in PERIODIC_CTORS:
                continue
            n += 1
            tys = c.node.get("argtys", [])
            pidx = [i for i, t in enumerate(tys) if t == "std::time::Duration"]
            if not pidx:
                return False
            per_or = K.call_arg_origins(c, pidx[0])
            if not any(cc.data[1] is False and K.call_arg_origins(cc.data[2], 0) == per_or for cc in _is_zero_conds(b, c)):
                return False
    return n > 0


def rule_c(ctx):
    P = ctx.prog
    sites = deadline_inserts(P)
    n_periodic_local = 0
    n_prebuilt = 0
    prod_ok = producers_validate(P)
    for s in sites:
        b = s.body
        fn = K.owner_fn(P, b).name
        act_or = K.call_arg_origins(s, 2)
        ctors = [x for x in b.calls() if x.callee in PERIODIC_CTORS]
        if all(o[0] == "arg" for o in act_or) and act_or:
            # pre-built action enters the queue here
            n_prebuilt += 1
            argn = next(iter(act_or))[1]
            nexts = [x for x in b.calls(ACTION_NEXT) if K.call_arg_origins(x, 0) == frozenset([("arg", argn)])]
            dom = [x for x in nexts if b.dominates(x, s)]
            ctx.ob("prebuilt-period-inspected|%s" % fn, bool(dom) or prod_ok,
                   "a pre-built Action may be periodic: its period (Action::next) must be inspected before it is inserted", [s] + nexts)
            # every edge `is_zero(period of next()) == true` must not reach the insert
            found = False
            leak = False
            for blk in sorted(b.live_blocks):
                if b.blocks[blk]["term"]["t"] != "switch":
                    continue
                for tgt in b.succ[blk]:
                    c = Cond(b, blk, tgt)
                    if c.kind == "call" and c.data[0] == IS_ZERO and c.data[1] is True:
                        zs = c.data[2]
                        arg_or = K.call_arg_origins(zs, 0)
                        if K.has_call(arg_or, ACTION_NEXT):
                            found = True
                            if s.b in b.reachable(tgt):
                                leak = True
            ctx.ob("prebuilt-null-period-rejected|%s" % fn, (found and not leak) or prod_ok,
                   "a pre-built periodic Action with a null period must be rejected before insertion (else the stepping loop "
                   "re-inserts it forever at the same time and step() never returns)", [s])
            continue
        if ctors:
            n_periodic_local += 1
            for c in ctors:
                # which arg is the period? the one of type Duration
                tys = c.node.get("argtys", [])
                pidx = [i for i, t in enumerate(tys) if t == "std::time::Duration"]
                if not pidx:
                    ctx.ob("period-arg|%s" % fn, False, "periodic action constructor without a Duration argument", [c])
                    continue
                per_or = K.call_arg_origins(c, pidx[0])
                zc = _is_zero_conds(b, s)
                ok = any(cc.data[1] is False and K.call_arg_origins(cc.data[2], 0) == per_or for cc in zc)
                ctx.ob("null-period-rejected|%s" % fn, ok,
                       "the insertion of a locally built periodic action must be guarded by `!period.is_zero()` on the same period value", [s, c])
                # and the error reported is NullRepetitionPeriod on the zero side
                errs = list(b.aggregates(adt="simulation::scheduler::SchedulingError", variant="NullRepetitionPeriod"))
                ok2 = bool(errs) and all(
                    any(cc.data[1] is True for cc in _is_zero_conds(b, e)) for e in errs)
                ctx.ob("null-period-error|%s" % fn, ok2, "NullRepetitionPeriod is reported exactly on the zero-period side", errs or [s])
    ctx.ob("floor|periodic-local", n_periodic_local >= 2, "expected >= 2 functions building periodic actions locally (found %d)" % n_periodic_local)
    ctx.ob("floor|prebuilt", n_prebuilt >= 1, "expected >= 1 function inserting a pre-built Action (found %d)" % n_prebuilt)
    # every constructor of a periodic action in the crate is either in such a guarded function or
    # a public producer whose product can only reach the queue through a pre-built insertion
    for b in P.all_bodies():
        for c in b.calls():
            if c.callee in PERIODIC_CTORS:
                fn = K.owner_fn(P, b)
                inserts_here = [s for s in sites if K.owner_fn(P, s.body).name == fn.name]
                if inserts_here:
                    continue
                # producer: must not itself insert; fine. Its result is an Action returned to the user.
                if b.name in PERIODIC_CTORS or b.name.startswith("<simulation::scheduler::"):
                    continue  # Action::next() re-creating itself
                ctx.ob("producer|%s" % fn.name, n_prebuilt >= 1,
                       "periodic actions built outside the scheduling functions can only enter the queue through a validated pre-built insertion", [c])


def rule_d(ctx):
    c01.rule_i(ctx)
    # the final jump of step_until: the queue inspection and the time write are one critical section (C01.g); otherwise a request
    # accepted in between has a deadline that the jump passes without firing it
    c01.rule_g(ctx)


def rule_e(ctx):
    """shared clause group: how a due action gets executed (C10.a/d, C07.b/c)"""
    from . import c07, c10
    c10.rule_a(ctx)
    c10.rule_d(ctx)
    c07.rule_b(ctx)
    c07.rule_c(ctx)

RULES = [
    ("C08.e", "an accepted request is executed once per occurrence: pull helper, chaining, SeqFuture", rule_e),
    ("C08.a", "time read + insert under the queue lock", rule_a),
    ("C08.b", "insert guarded by deadline > now; reject has no effect", rule_b),
    ("C08.c", "null period rejected for every periodic action entering the queue", rule_c),
    ("C08.d", "time writes hold the queue lock; the final jump of step_until writes only after seeing nothing pending, under the same guard", rule_d),
]


def rule_inventory(ctx):
    from . import inventory
    inventory.check(ctx, ['sched-queue-pull', 'sched-queue-insert'])


RULES.append(("C08.f", "state-mutation inventory: no new site that changes the content of the state this property rests on", rule_inventory))


def rule_wrappers(ctx):
    """The public entry points (Scheduler::schedule*, Context::schedule*) hand every request to the validated schedule*_from
    function: on every path, with the caller's own deadline, and their result is that function's result."""
    P = ctx.prog
    callers = P.callers_of(r"^simulation::scheduler::GlobalScheduler::schedule\w*_from$")
    n = 0
    for b, s in callers:
        if "::tests" in b.name:
            continue
        n += 1
        fn = b.name
        rets = [Site(b, r, TERM) for r in b.return_blocks()]
        ctx.ob("wrapper-always-delegates|%s" % fn, bool(rets) and all(b.dominates(s, r) for r in rets),
               "every path through the public scheduling method reaches the validated schedule*_from call (no fast path around it)", [s])
        do = K.call_arg_origins(s, 1)
        ctx.ob("wrapper-forwards-deadline|%s" % fn, bool(do) and all(o[0] == "arg" for o in do),
               "the deadline handed to schedule*_from is the caller's deadline argument, unmodified (%s)" % K.describe_origin(do), [s])
        # a repetition period travels unchanged as well
        for i, a in enumerate(s.args()):
            if a.get("k") in ("copy", "move") and not a["pl"]["p"] and b.locals[a["pl"]["l"]]["ty"] == "std::time::Duration":
                po = b.origins(a, s)
                okp = bool(po) and all(o[0] == "arg" and b.locals[o[1]]["ty"] == "std::time::Duration" for o in po)
                ctx.ob("wrapper-forwards-period|%s" % fn, okp,
                       "the period handed to schedule*_from is the caller's period argument, unmodified (%s)" % K.describe_origin(po), [s])
        ras = K.ret_assigns(b)
        ok = bool(ras)
        for r in ras:
            if r.is_term:
                ok = ok and (r.key() == s.key() or r.node.get("callee_n") == "std::ops::FromResidual::from_residual")
            elif K.result_variant_of_ret(r) == "Ok":
                ok = ok and b.dominates(s, r)
            elif K.result_variant_of_ret(r) == "Err":
                pass
            else:
                ro = b.origins(r.node["r"]["o"], r) if r.node["r"]["r"] == "use" else frozenset()
                ok = ok and bool(ro) and all(x[0] == "call" and x[1] == s.b for x in (core_root(o) for o in ro))
        ctx.ob("wrapper-result-from-delegate|%s" % fn, ok,
               "the method's result is the result of schedule*_from (Ok is never produced without it)", ras or [s])
    ctx.ob("floor|schedule-wrappers", n >= 9, "expected >= 9 public entry points delegating to schedule*_from (found %d)" % n, [s for _, s in callers])


def core_root(o):
    from ..core import origin_proj_names
    return origin_proj_names(o)[0]


RULES.append(("C08.g", "public scheduling methods always delegate to the validated schedule*_from with the caller's deadline", rule_wrappers))


def rule_mustpass(ctx):
    from . import mustpass
    mustpass.check(ctx, ['periodic-reinserted'])


RULES.append(("C08.h", "must-pass-through: no path around the effects this property rests on (added fast paths / early returns)", rule_mustpass))


def rule_commit(ctx):
    from . import mustpass
    for g, floor in [('sched-queue', 25)]:
        mustpass.commit_group(ctx, g, floor)


RULES.append(("C08.i", "branch-commit: between the decision to perform an effect and the effect there is no way out", rule_commit))


def rule_deps(ctx):
    from . import c20, c01
    c01.rule_deadline_impls(ctx)
    c20.rule_a(ctx)
    c20.rule_b(ctx)


RULES.append(("C08.j", "the queue yields the smallest key first, FIFO among equal keys (C20.a/b): an accepted request fires at its deadline", rule_deps))


def rule_time_cell(ctx):
    from . import c15, inventory
    c15.rule_a(ctx)
    c15.rule_b(ctx)
    c15.rule_time_cell_fields(ctx)
    inventory.check_narrowing(ctx)


RULES.append(("C08.k", "the time a scheduling request is validated against is the simulation time: untorn reads (C15.a/b), unconverted components of the time cell, no narrowed integer", rule_time_cell))
