"""C18 Clock synchronisation gates every time step — clauses a..d (DESIGN.md section 5, C18)."""
from ..core import Site, TERM, norm, origin_calls, origin_proj_names, last_seg, Cond, origin_contains
from . import common as K
from . import c01

EXPLANATION = (
    "Decides: (a) in the stepping function Clock::synchronize is called exactly once per step (not on a cycle), "
    "with the time that was written (or a key proven equal in time), after the time write, after the queue guard "
    "has been released and before Simulation::run; Err(OutOfSync(lag)) is produced iff a tolerance is set and "
    "lag > tolerance, on a path that sets the termination flag and cannot reach run; without tolerance the lag is "
    "ignored; (b) the final jump of step_until writes the target and then synchronises on the same value once; "
    "(c) SimInit::init writes the start time, synchronises on it, then runs; (d) nobody else calls "
    "Clock::synchronize on the simulation's clock. NOT decided: that the sequence of arguments is monotone at run "
    "time (follows from C01), behaviour of user Clock implementations."
)
TRUSTED = K.TRUSTED


def guard_released(body, site):
    """every scheduler-queue guard of `body` is definitely dead at `site` (on all paths)."""
    for g in K.queue_guard_locals(body):
        gens = K.guard_gens(body, g)
        kill = K.guard_kill(body, g)
        kills = [s for s in body.sites() if kill(s)]
        gen_keys = set(x.key() for x in gens)
        # may-hold: a path from a gen to `site` without a kill
        for gsite in gens:
            if body.can_reach(gsite, site, avoiding=[k for k in kills if k.key() not in gen_keys]):
                return False
    return True


def rule_a(ctx):
    P = ctx.prog
    fns = c01.stepping_fns(P)
    if not fns:
        return ctx.missing("stepping function")
    for b in fns:
        syncs = list(b.calls(K.CLOCK_SYNC))
        writes = list(b.calls(K.TIME_WRITE))
        runs = list(b.calls(K.SIM_RUN))
        ctx.ob("one-sync-site|%s" % b.name, len(syncs) == 1, "exactly one Clock::synchronize site in the stepping function (found %d)" % len(syncs), syncs)
        if not syncs or not writes or not runs:
            ctx.missing("synchronize / write / run in " + b.name)
            continue
        s = syncs[0]
        ctx.ob("sync-not-in-loop|%s" % b.name, not b.in_loop(s), "synchronize must run once per step (not on a cycle of the step loop)", [s])
        ctx.ob("write-before-sync|%s" % b.name, any(b.dominates(w, s) for w in writes), "the time write dominates synchronize", [s])
        ctx.ob("sync-before-run|%s" % b.name, all(b.dominates(s, r) for r in runs), "synchronize dominates Simulation::run", [s] + runs)
        ctx.ob("sync-unlocked|%s" % b.name, guard_released(b, s),
               "the scheduler-queue guard must be released before the (possibly blocking) synchronize", [s])
        ctx.ob("run-unlocked|%s" % b.name, all(guard_released(b, r) for r in runs),
               "the scheduler-queue guard must be released before the executor runs (handlers schedule events)", runs)
        # must-pass-through (a new fast path must not skip the clock or the computations of the new time)
        for x in writes:
            ctx.ob("written-time-synchronised|%s" % b.name, not b.path_exists_to_return(x, avoiding=[s]),
                   "once the new time is written, every path to a return passes synchronize (no early return between the two)", [x, s])
        oos_sites = list(b.aggregates(adt="simulation::ExecutionError", variant="OutOfSync"))
        fails = [r for r in K.failure_results(b) if b.can_reach(s, r) and not any(b.can_reach(x, r) for x in runs)]
        ctx.ob("synchronised-time-run|%s" % b.name, not b.path_exists_to_return(s, avoiding=runs + oos_sites + fails),
               "after synchronize every path to a return runs the executor, except a failure result", [s] + runs)
        badf = [r for r in fails if not K.result_flows_from_variant(b, r, "OutOfSync")]
        ctx.ob("failure-before-run-is-out-of-sync|%s" % b.name, not badf,
               "between synchronize and run the only failure that can be returned is the OutOfSync error", badf or [s])
        # value
        w = [x for x in writes if b.dominates(x, s)][0]
        wo = K.call_arg_origins(w, 1)
        so = K.call_arg_origins(s, 1)
        extra = so - wo
        ok = wo <= so or so == wo
        # any other origin must be a key whose time was tested equal to the current key's time
        for o in extra:
            root, names = origin_proj_names(o)
            good = False
            if root[0] == "call" and names and names[-1] == ("f", "0"):
                # find the definition sites of the local holding the current key that carry this origin
                for blk in sorted(b.live_blocks):
                    for tgt in b.succ[blk]:
                        if b.blocks[blk]["term"]["t"] != "switch":
                            continue
                        c = Cond(b, blk, tgt)
                        if c.kind == "cmp" and c.data[0] == "==":
                            A, B = c.data[1], c.data[2]
                            if (o in A or o in B) and all(origin_proj_names(x)[1][-1:] == [("f", "0")] for x in (A | B)):
                                good = True
            ok = ok and good
        ctx.ob("sync-value-is-written-time|%s" % b.name, ok and bool(so),
               "synchronize receives the time that was written (origins %s vs %s)" % (K.describe_origin(so), K.describe_origin(wo)), [s, w])
        # OutOfSync handling
        oos = list(b.aggregates(adt="simulation::ExecutionError", variant="OutOfSync"))
        ctx.ob("out-of-sync-reported|%s" % b.name, len(oos) >= 1, "OutOfSync must be reported by the stepping function", oos or [s])
        for e in oos:
            conds = b.conditions(e)
            v_sync = any(c.kind == "variant" and c.data[1] == {"OutOfSync"} and not c.data[2] and
                         c.data[0] == frozenset([("call", s.b, K.CLOCK_SYNC)]) for c in conds)
            v_tol = any(c.kind == "variant" and c.data[1] == {"Some"} and not c.data[2] and
                        all(origin_proj_names(o)[1][-1:] == [("f", "clock_tolerance")] for o in c.data[0]) for c in conds)

            def is_lag(x):
                return bool(x) and all(origin_proj_names(o)[0] == ("call", s.b, K.CLOCK_SYNC) and origin_proj_names(o)[1][:1] == [("d", "OutOfSync")] for o in x)

            def is_tol(x):
                return bool(x) and all(any(n == ("f", "clock_tolerance") for n in origin_proj_names(o)[1]) for o in x)

            gt = any(K.cmp_implies(c, ">", is_lag, is_tol) for c in conds)
            ctx.ob("out-of-sync-iff|%s" % b.name, v_sync and v_tol and gt,
                   "Err(OutOfSync(lag)) iff synchronize returned OutOfSync(lag), a tolerance is set and lag > tolerance (strict)", [e])
            lo = b.origins(e.node["r"]["ops"][0], e)
            ctx.ob("out-of-sync-carries-lag|%s" % b.name, is_lag(lo), "OutOfSync carries the lag reported by the clock", [e])
            # `?` on a value built from this error has a Continue edge in the CFG that cannot be taken: do not follow it
            trys = [t for t in b.calls(r"^std::ops::Try::branch$") if K.flows_from(b, b.origins(t.args()[0], t), lambda x, e=e: x[0] == "agg" and x[1] == e.b and x[2] == e.i)]
            ctx.ob("out-of-sync-skips-run|%s" % b.name, not any(b.can_reach(e, r, avoiding=trys) for r in runs) and
                   (not trys or any(K.result_flows_from_variant(b, r, "OutOfSync") for r in K.failure_results(b))),
                   "after OutOfSync no model code runs in that step", [e])
        # run reachable from the sync on: Synchronized, no tolerance, lag <= tolerance
        for r in runs:
            conds = b.conditions(r)
            forced = [c for c in conds if b.block_dominates(s.b, c.b) and c.b != s.b or (c.b == s.b)]
            bad = [c for c in conds if b.dominates(s, c.site) and c.kind in ("variant", "cmp", "call", "bool")]
            # the `?` of a helper's result (Continue side) is not a condition on the clock's answer; which failures can be
            # returned there is decided by failure-before-run-is-out-of-sync / out-of-sync-iff
            bad = [c for c in bad if not (c.kind == "variant" and set(c.data[1]) <= {"Continue", "Break"})]
            ctx.ob("lag-ignored-without-tolerance|%s" % b.name, not bad,
                   "run must be reached on every outcome of synchronize other than the OutOfSync-above-tolerance branch", [r] + [c.site for c in bad])


def rule_b(ctx):
    P = ctx.prog
    fns = c01.step_until_loop_fn(P)
    if not fns:
        return ctx.missing("step_until loop function")
    for b in fns:
        target = frozenset([("arg", 2)])
        writes = [w for w in b.calls(K.TIME_WRITE)]
        syncs = list(b.calls(K.CLOCK_SYNC))
        ctx.ob("one-sync-site|%s" % b.name, len(syncs) == 1, "exactly one synchronize site in the final jump", syncs)
        for s in syncs:
            ctx.ob("sync-on-target|%s" % b.name, K.call_arg_origins(s, 1) == target, "the final synchronize receives the target time", [s])
            ctx.ob("write-before-sync|%s" % b.name, any(b.dominates(w, s) and K.call_arg_origins(w, 1) == target for w in writes),
                   "write(target) dominates synchronize(target)", [s] + writes)
            ctx.ob("sync-not-in-loop|%s" % b.name, not b.in_loop(s), "the final synchronize happens once", [s])
            ctx.ob("sync-unlocked|%s" % b.name, guard_released(b, s), "the queue guard is released before the final synchronize", [s])
        for w in writes:
            ctx.ob("written-target-synchronised|%s" % b.name, any(b.postdominates(s, w) for s in syncs),
                   "every final time write is followed by a synchronize on every path", [w])
        # the lag reported by the final synchronize is subject to the tolerance like any other (documented contract of
        # set_clock_tolerance: "any report of synchronization loss ... that exceeds the specified tolerance will trigger an OutOfSync error")
        for s in syncs:
            oos = [e for e in b.aggregates(adt="simulation::ExecutionError", variant="OutOfSync") if b.dominates(s, e)]
            ctx.ob("final-out-of-sync-reported|%s" % b.name, len(oos) >= 1,
                   "the result of the final synchronize(target) is inspected: a lag above the tolerance makes step_until fail with OutOfSync", oos or [s])
            for e in oos:
                conds = b.conditions(e)
                v_sync = any(c.kind == "variant" and c.data[1] == {"OutOfSync"} and not c.data[2] and
                             c.data[0] == frozenset([("call", s.b, K.CLOCK_SYNC)]) for c in conds)
                v_tol = any(c.kind == "variant" and c.data[1] == {"Some"} and not c.data[2] and
                            all(origin_proj_names(o)[1][-1:] == [("f", "clock_tolerance")] for o in c.data[0]) for c in conds)

                def is_lag(x, s=s):
                    return bool(x) and all(origin_proj_names(o)[0] == ("call", s.b, K.CLOCK_SYNC) and origin_proj_names(o)[1][:1] == [("d", "OutOfSync")] for o in x)

                def is_tol(x):
                    return bool(x) and all(any(n == ("f", "clock_tolerance") for n in origin_proj_names(o)[1]) for o in x)

                gt = any(K.cmp_implies(c, ">", is_lag, is_tol) for c in conds)
                ctx.ob("final-out-of-sync-iff|%s" % b.name, v_sync and v_tol and gt,
                       "final jump: Err(OutOfSync(lag)) iff synchronize returned OutOfSync(lag), a tolerance is set and lag > tolerance (strict)", [e])
                ctx.ob("final-out-of-sync-carries-lag|%s" % b.name, is_lag(b.origins(e.node["r"]["ops"][0], e)),
                       "final jump: OutOfSync carries the lag reported by the clock", [e])
            # Ok is still returned on every other outcome (no tolerance: lags ignored)
            # every other outcome is Ok: after the final synchronize the only failure that can be produced is that OutOfSync
            after = [r for r in K.ret_assigns(b) if b.can_reach(s, r)]
            oks = [r for r in after if K.result_variant_of_ret(r) == "Ok"]
            bad = []
            for r in after:
                if K.result_variant_of_ret(r) != "Err":
                    continue
                ops = r.args() if r.is_term else r.node["r"]["ops"]
                src = frozenset().union(*[b.origins(op, r) for op in ops]) if ops else frozenset()
                if not K.flows_from(b, src, lambda t: t[0] == "agg" and len(t) > 4 and t[4] == "OutOfSync"):
                    bad.append(r)
            ctx.ob("final-lag-ignored-without-tolerance|%s" % b.name, bool(oks) and not bad,
                   "after the final synchronize the call returns Ok, or the OutOfSync failure decided above, and nothing else", oks + bad)


def rule_c(ctx):
    P = ctx.prog
    b = ctx.body("simulation::sim_init::SimInit::init")
    if not b:
        return
    start = frozenset([("arg", 2)])
    writes = list(b.calls(K.TIME_WRITE))
    syncs = list(b.calls(K.CLOCK_SYNC))
    runs = list(b.calls(K.SIM_RUN))
    ok = len(writes) == 1 and len(syncs) == 1 and len(runs) == 1
    ctx.ob("init|sites", ok, "SimInit::init has exactly one time write, one synchronize and one run", writes + syncs + runs)
    if ok:
        w, s, r = writes[0], syncs[0], runs[0]
        ctx.ob("init|order", b.dominates(w, s) and b.dominates(s, r) and not b.in_loop(s), "write(start) < synchronize(start) < run, once", [w, s, r])
        ctx.ob("init|values", K.call_arg_origins(w, 1) == start and K.call_arg_origins(s, 1) == start, "both receive the start time", [w, s])
        ctx.ob("init|unconditional", not b.conditions(s) and not b.conditions(r), "synchronize and run are unconditional in init", [s, r])


def rule_d(ctx):
    P = ctx.prog
    allowed = set(x.name for x in c01.stepping_fns(P)) | set(x.name for x in c01.step_until_loop_fn(P)) | {"simulation::sim_init::SimInit::init"}
    callers = P.callers_of(lambda c: c == K.CLOCK_SYNC)
    if len(callers) < 3:
        ctx.ob("floor|sync-callers", False, "expected 3 synchronize call sites (found %d)" % len(callers))
    for b, s in callers:
        fn = K.owner_fn(P, b).name
        ok = fn in allowed
        # a Clock implementation delegating to an inner clock is fine
        if b.impl_trait and norm(b.impl_trait) == "time::clock::Clock":
            ok = True
        ctx.ob("sync-caller|%s" % fn, ok, "Clock::synchronize may only be called by the stepping function, the final jump and SimInit::init", [s])


def rule_e(ctx):
    """configuration plumbing: the tolerance / clock given to the builder are the ones the simulation uses."""
    P = ctx.prog
    init = ctx.body("simulation::sim_init::SimInit::init")
    if not init:
        return
    news = list(init.calls("^simulation::Simulation::new$"))
    if len(news) != 1:
        return ctx.missing("Simulation::new in SimInit::init")
    nw = news[0]
    tys = nw.node.get("argtys", [])
    want = {"clock": None, "tolerance": None, "timeout": None}
    for i, t in enumerate(tys):
        if t.startswith("std::boxed::Box<dyn time::clock::Clock"):
            want["clock"] = i
        elif t == "std::option::Option<std::time::Duration>":
            want["tolerance"] = i
        elif t == "std::time::Duration":
            want["timeout"] = i

    def path_of(os_):
        out = set()
        for o in os_:
            rt, names = origin_proj_names(o)
            if rt == ("arg", 1) and names and all(n[0] == "f" for n in names):
                out.add(tuple(n[1] for n in names))
        return out

    paths = {}
    for k, i in want.items():
        if i is None:
            ctx.missing("argument `%s` of Simulation::new" % k)
            continue
        ps = path_of(init.origins(nw.args()[i], nw))
        ctx.ob("init-passes-configured-%s" % k, len(ps) == 1, "SimInit::init hands the configured %s (a field of the builder) to the simulation" % k, [nw])
        if len(ps) == 1:
            paths[k] = next(iter(ps))
    # the clock that init synchronises on is the same one
    for s in init.calls(K.CLOCK_SYNC):
        co = path_of(frozenset(origin_proj_names(o)[0] if False else o for o in init.origins(s.args()[0], s)))
        if "clock" in paths:
            ctx.ob("init-synchronises-configured-clock", paths["clock"] in co, "init synchronises on the configured clock", [s])
    # writers of each configured path (or of a prefix / extension of it) among the builder's methods
    methods = [b for b in P.all_bodies() if b.impl_self == "simulation::sim_init::SimInit" and b.impl_trait is None and b.kind == "AssocFn"]
    writers = {k: set() for k in paths}
    wsites = {k: [] for k in paths}
    for b in methods:
        for s in b.assigns():
            pl = s.node["p"]
            if not pl["p"]:
                continue
            dest = path_of(b.place_origins(pl, s))
            for d in dest:
                for k, pth in paths.items():
                    if d[:len(pth)] == pth or pth[:len(d)] == d:
                        writers[k].add(b.name)
                        wsites[k].append(s)
    setters = {"clock": "simulation::sim_init::SimInit::set_clock", "tolerance": "simulation::sim_init::SimInit::set_clock_tolerance",
               "timeout": "simulation::sim_init::SimInit::set_timeout"}
    for k in paths:
        ok = writers[k] <= {setters[k]} and (setters[k] in writers[k])
        ctx.ob("only-own-setter-writes-%s" % k, ok,
               "after construction the configured %s is written only by %s (another setter overwriting it would silently drop the "
               "configuration); writers: %s" % (k, last_seg(setters[k]), sorted(writers[k])), wsites[k])
    # the setter stores its argument
    st = P.body(setters["tolerance"])
    if st is not None and "tolerance" in paths:
        ok = False
        for s in st.assigns():
            if path_of(st.place_origins(s.node["p"], s)) == {paths["tolerance"]} and s.node["r"]["r"] == "use":
                vo = st.origins(s.node["r"]["o"], s)
                for o in vo:
                    if o[0] == "agg" and o[4] == "Some":
                        a = Site(st, o[1], o[2])
                        if st.origins(a.node["r"]["ops"][0], a) == frozenset([("arg", 2)]):
                            ok = True
        ctx.ob("set-clock-tolerance-stores-some", ok, "set_clock_tolerance stores Some(tolerance)", [st.loc()])
    # Simulation::new stores its parameters in the fields the stepping function reads
    sn = P.body("simulation::Simulation::new")
    if sn is not None:
        aggs = list(sn.aggregates(adt="simulation::Simulation"))
        ok = len(aggs) == 1
        if ok:
            fo = dict(zip(aggs[0].node["r"]["fields"], aggs[0].node["r"]["ops"]))
            for fld, k in (("clock", "clock"), ("clock_tolerance", "tolerance"), ("timeout", "timeout")):
                o = sn.origins(fo[fld], aggs[0]) if fld in fo else frozenset()
                ok = ok and want[k] is not None and o == frozenset([("arg", want[k] + 1)])
        ctx.ob("simulation-new-stores-configuration", ok, "Simulation::new stores clock, tolerance and timeout in the fields used by stepping", aggs)


def rule_f(ctx):
    from . import c04
    c04.rule_a(ctx)

RULES = [
    ("C18.f", "all computations of a step are run to quiescence before the stepping call returns", rule_f),
    ("C18.e", "the configured clock and tolerance reach the stepping function unchanged", rule_e),
    ("C18.a", "stepping fn: write < unlock < synchronize(written) < run; OutOfSync iff lag > tolerance", rule_a),
    ("C18.b", "final jump: write(target) < synchronize(target), once", rule_b),
    ("C18.c", "init: write(start) < synchronize(start) < run", rule_c),
    ("C18.d", "who may call Clock::synchronize", rule_d),
]


def rule_commit(ctx):
    from . import mustpass
    for g, floor in [('sched-queue', 25)]:
        mustpass.commit_group(ctx, g, floor)


RULES.append(("C18.g", "branch-commit: between the decision to perform an effect and the effect there is no way out", rule_commit))


def rule_deps(ctx):
    from . import c01, c08, c11
    # the actions of the new time are already spawned when synchronize runs: only the terminated flag (set on the OutOfSync path,
    # tested by every entry point) keeps them from running at a later call (C11.a/b)
    c11.rule_a(ctx)
    c11.rule_b(ctx)
    c01.rule_g(ctx)
    c01.rule_i(ctx)
    c08.rule_a(ctx)


RULES.append(("C18.h", "the times passed to synchronize never decrease: time writes are monotone (C01.g/i, C08.a)", rule_deps))


def _rel_now_deadline(body, cond, now_key):
    """what a comparison guard says about (now ? deadline): one of '<', '<=', '>', '>=' or None. now = result of the clock read,
    deadline = the method's argument."""
    from ..core import SWAP
    NEG = {"<": ">=", "<=": ">", ">": "<=", ">=": "<"}
    if cond.kind == "call":
        callee, truth, site = cond.data[0], cond.data[1], cond.data[2]
        nm = last_seg(callee)
        op = {"le": "<=", "lt": "<", "ge": ">=", "gt": ">"}.get(nm)
        if op is None or "PartialOrd" not in callee:
            return None
        a = body.origins(site.args()[0], site)
        b = body.origins(site.args()[1], site)
    elif cond.kind == "cmp":
        op, a, b = cond.data[0], cond.data[1], cond.data[2]
        truth = True
        if op not in NEG:
            return None
    else:
        return None
    if not truth:
        op = NEG[op]
    if a == frozenset([now_key]) and b == frozenset([("arg", 2)]):
        return op
    if b == frozenset([now_key]) and a == frozenset([("arg", 2)]):
        return SWAP[op]
    return None


def rule_builtin_clocks(ctx):
    """The clocks shipped with the crate answer truthfully: SystemClock reports Synchronized only when the wall clock has not passed
    the deadline (after sleeping until it) and otherwise OutOfSync carrying now - deadline; AutoSystemClock anchors itself on the
    first deadline and from then on delegates the very deadline it was given. (What an arbitrary user clock answers is quantified
    over by the property; these two are the ones a user gets without writing one.)"""
    P = ctx.prog
    b = ctx.body("<time::clock::SystemClock as time::clock::Clock>::synchronize")
    if b is not None:
        nows = list(b.calls(r"::now$"))
        rets = [r for r in K.ret_assigns(b) if not r.is_term and r.node["r"]["r"] == "agg"]
        ok = len(nows) == 1 and len(rets) >= 2
        ctx.ob("system-clock|shape", ok, "one wall-clock read; results are built as SyncStatus values", nows + rets)
        if ok:
            nk = ("call", nows[0].b, nows[0].callee)
            for r in rets:
                v = r.node["r"].get("variant")
                rels = [x for x in (_rel_now_deadline(b, c, nk) for c in b.conditions(r)) if x]
                if v == "OutOfSync":
                    okr = any(x in (">", ">=") for x in rels)
                    lo = b.origins(r.node["r"]["ops"][0], r)
                    okl = len(lo) == 1 and next(iter(lo))[0] == "call" and next(iter(lo))[2].endswith("::duration_since")
                    if okl:
                        d = Site(b, next(iter(lo))[1], TERM)
                        okl = b.origins(d.args()[0], d) == frozenset([nk]) and b.origins(d.args()[1], d) == frozenset([("arg", 2)])
                    ctx.ob("system-clock|out-of-sync-iff-deadline-passed", okr, "OutOfSync is reported only when the wall clock has passed the deadline", [r])
                    ctx.ob("system-clock|lag-is-now-minus-deadline", okl, "the reported lag is now.duration_since(deadline)", [r])
                elif v == "Synchronized":
                    okr = any(x in ("<", "<=") for x in rels)
                    sl = [s for s in b.calls(r"sleep$") if b.dominates(s, r)]
                    oks = len(sl) == 1
                    if oks:
                        so = b.origins(sl[0].args()[0], sl[0])
                        oks = len(so) == 1 and next(iter(so))[0] == "call" and next(iter(so))[2].endswith("::duration_since")
                        if oks:
                            d = Site(b, next(iter(so))[1], TERM)
                            oks = b.origins(d.args()[0], d) == frozenset([("arg", 2)]) and b.origins(d.args()[1], d) == frozenset([nk])
                    ctx.ob("system-clock|synchronized-iff-deadline-ahead", okr, "Synchronized is reported only when the deadline has not passed", [r])
                    ctx.ob("system-clock|sleeps-until-deadline", oks, "before reporting Synchronized the clock sleeps for deadline.duration_since(now)", sl or [r])
    a = ctx.body("<time::clock::AutoSystemClock as time::clock::Clock>::synchronize")
    if a is not None:
        dels = [s for s in a.calls(lambda c: c == K.CLOCK_SYNC)]
        inits = list(a.calls(r"^time::clock::SystemClock::from_instant$"))
        ok = len(dels) == 1 and len(inits) == 1
        if ok:
            d, i = dels[0], inits[0]
            ok = a.origins(d.args()[1], d) == frozenset([("arg", 2)]) and d.node["dest"]["l"] == 0 and not d.node["dest"]["p"]
            ro = a.origins(d.args()[0], d)
            ok = ok and bool(ro) and all(origin_proj_names(x)[1][:1] == [("f", "inner")] or any(n == ("f", "inner") for n in origin_proj_names(x)[1]) for x in ro)
            ok = ok and a.origins(i.args()[0], i) == frozenset([("arg", 2)])
            wo = a.origins(i.args()[1], i)
            ok = ok and len(wo) == 1 and next(iter(wo))[0] == "call" and next(iter(wo))[2] == "std::time::Instant::now"
            # the two arms are selected by the state of `inner`
            cd = [c for c in a.conditions(d) if c.kind == "variant" and "Some" in c.data[1] and not c.data[2]]
            ci = [c for c in a.conditions(i) if c.kind == "variant" and "None" in c.data[1] and not c.data[2]]
            ok = ok and bool(cd) and bool(ci)
            # the anchored clock is stored into self.inner
            st = [s for s in a.assigns() if s.node["p"]["p"] and s.node["p"]["l"] == 1 and a.dominates(i, s)]
            ok = ok and len(st) == 1
        ctx.ob("auto-clock|anchors-once-then-delegates-deadline", ok,
               "AutoSystemClock anchors (deadline, Instant::now()) when it has no inner clock, stores it, and otherwise returns inner.synchronize(deadline)", dels + inits)


RULES.append(("C18.i", "the built-in clocks answer truthfully (SystemClock: Synchronized / OutOfSync(now - deadline); AutoSystemClock delegates the deadline)", rule_builtin_clocks))


def rule_time_cell(ctx):
    from . import c15, inventory
    c15.rule_a(ctx)
    c15.rule_b(ctx)
    c15.rule_time_cell_fields(ctx)
    inventory.check_narrowing(ctx)


RULES.append(("C18.j", "the times written and handed to the clock are the simulation time: unconverted components of the time cell, untorn reads (C15.a/b)", rule_time_cell))
