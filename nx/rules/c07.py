"""C07 Same-time events from one origin are processed in scheduling order — clauses a..e."""
from ..core import Site, TERM, norm, origin_calls, origin_proj_names, last_seg, Cond, origin_contains
from . import common as K
from . import c01

EXPLANATION = (
    "Decides: (a) every deadline-keyed insertion uses the key (time, origin id parameter); the public Scheduler "
    "methods pass the constant 0 and the model Context passes its own origin_id field, which is assigned once from "
    "the mailbox's channel id (an address, hence non-zero and unique per live mailbox); (b) in the stepping function "
    "a pulled action is spawned on its own only when the next key differs from the current key, otherwise all actions "
    "of that key are pushed in pull order into one SeqFuture that is spawned as one task, and the current key is "
    "advanced to the next key whenever the loop continues at the same time; (c) SeqFuture polls element idx, advances "
    "idx by one only after that element returned Ready, returns Ready only when idx == len and Pending only when the "
    "polled element is pending; push appends; (d) the queue is FIFO among equal keys (C20 a/b); (e) a periodic "
    "occurrence is re-inserted when its predecessor is pulled (C10.a). NOT decided: preservation of the order through "
    "the mailbox and the executor at run time (C02/C12)."
)
TRUSTED = K.TRUSTED


def rule_a(ctx):
    P = ctx.prog
    sites = [s for s in c01.sched_insert_sites(P) if c01.classify_insert(s)[0] == "deadline"]
    if len(sites) < 5:
        ctx.ob("floor|deadline-inserts", False, "expected >= 5 deadline-keyed insertions (found %d)" % len(sites))
    fns = {}
    for s in sites:
        b = s.body
        fn = K.owner_fn(P, b).name
        ko = K.call_arg_origins(s, 1)
        ok = False
        pidx = None
        for o in ko:
            if o[0] == "agg":
                a = Site(b, o[1], o[2])
                ops = a.node["r"]["ops"]
                if len(ops) == 2:
                    oo = b.origins(ops[1], a)
                    if len(oo) == 1 and next(iter(oo))[0] == "arg":
                        pidx = next(iter(oo))[1]
                        ok = b.locals[pidx]["ty"] == "usize"
        ctx.ob("key-origin-is-param|%s" % fn, ok, "the inserted key is (deadline, origin_id) with origin_id the function's own usize parameter", [s])
        if ok:
            fns[fn] = pidx
    # callers
    n_sched = n_ctx = 0
    for fn, pidx in fns.items():
        for cb, cs in P.callers_of(lambda c, fn=fn: c == fn):
            o = cb.origins(cs.args()[pidx - 1], cs)
            owner = K.owner_fn(P, cb)
            if owner.impl_self == "simulation::scheduler::Scheduler":
                n_sched += 1
                ok = all(x[0] == "const" and x[1] == 0 for x in o) and bool(o)
                ctx.ob("scheduler-origin-zero|%s" % owner.name, ok, "the global Scheduler schedules under origin id 0", [cs])
            elif owner.impl_self == "model::context::Context":
                n_ctx += 1
                ok = o == frozenset([("proj", ("arg", 1), ("f", "origin_id"))])
                ctx.ob("context-origin-own|%s" % owner.name, ok, "a model Context schedules under its own origin_id", [cs])
            else:
                ctx.ob("origin-caller|%s" % owner.name, False, "unexpected caller of a schedule*_from function", [cs])
    ctx.ob("floor|scheduler-callers", n_sched >= 5, "expected >= 5 Scheduler::schedule* callers (found %d)" % n_sched)
    ctx.ob("floor|context-callers", n_ctx >= 4, "expected >= 4 Context::schedule* callers (found %d)" % n_ctx)
    # origin_id assigned once, from the channel id
    cnew = P.body("model::context::Context::new")
    if cnew is None:
        ctx.missing("model::context::Context::new")
    else:
        aggs = list(cnew.aggregates(adt="model::context::Context"))
        ok = len(aggs) == 1
        if ok:
            a = aggs[0]
            fo = dict(zip(a.node["r"]["fields"], a.node["r"]["ops"]))
            o = cnew.origins(fo["origin_id"], a) if "origin_id" in fo else frozenset()
            ok = bool(o) and all(any(c[2].endswith("channel_id") for c in origin_calls(x)) for x in o)
            # and it is the id of the address stored in the same context
            if ok:
                cid = [Site(cnew, c[1], TERM) for x in o for c in origin_calls(x) if c[2].endswith("channel_id")][0]
                ao = cnew.origins(cid.args()[0], cid)
                addr = cnew.origins(fo["address"], a)
                ok = all(origin_proj_names(x)[0] in addr for x in ao)
        ctx.ob("origin-from-channel-id", ok, "Context.origin_id is the channel id of the context's own mailbox address", aggs)
    # nobody writes origin_id afterwards
    writers = []
    for b in P.all_bodies():
        for s in b.assigns():
            p = s.node["p"]["p"]
            if p and p[-1] != "*" and p[-1][0] == "f" and p[-1][2] == "origin_id":
                writers.append(s)
    ctx.ob("origin-never-reassigned", not writers, "origin_id is never reassigned", writers)
    ch = P.body("channel::Sender::channel_id")
    if ch is None:
        ctx.missing("channel::Sender::channel_id")
    else:
        ptrs = list(ch.calls("^std::sync::Arc::as_ptr$"))
        rets = K.ret_assigns(ch)
        ok = len(ptrs) == 1 and ch.origins(ptrs[0].args()[0], ptrs[0]) == frozenset([("proj", ("arg", 1), ("f", "inner"))])
        ok = ok and bool(rets) and all((not r.is_term) and r.node["r"]["r"] == "cast" and
                                       ch.origins(r.node["r"]["o"], r) == frozenset([("call", ptrs[0].b, "std::sync::Arc::as_ptr")]) for r in rets)
        ctx.ob("channel-id-is-address", ok, "a channel id is the address of the shared channel allocation (non-zero, unique while alive)", ptrs)


def rule_b(ctx):
    P = ctx.prog
    from . import inventory
    inventory.check(ctx, ["seq-future-build"])
    fns = c01.stepping_fns(P)
    if not fns:
        return ctx.missing("stepping function")
    for b in fns:
        alone = [s for s in b.calls("simulation::scheduler::Action::spawn_and_forget$")]
        seqspawn = [s for s in b.calls("executor::Executor::spawn_and_forget$")
                    if "seq_futures::SeqFuture" in (s.node.get("argtys") or ["", ""])[1]]
        pushes = [s for s in b.calls("util::seq_futures::SeqFuture::push$")]
        news = [s for s in b.calls("util::seq_futures::SeqFuture::new$")]
        if not (alone and seqspawn and pushes and news):
            ctx.missing("single spawn / SeqFuture spawn / push / new in " + b.name)
            continue

        def key_cmp(c, op):
            """cond: next_key <op> Some(current_key)"""
            if c.kind != "cmp" or c.data[0] != op:
                return False
            A, B = c.data[1], c.data[2]
            def is_next(x):
                return bool(x) and all(o[0] == "call" and o[2] == "std::ops::Fn::call" for o in x)
            def is_some_cur(x):
                return bool(x) and all(o[0] == "agg" and o[4] == "Some" for o in x)
            return (is_next(A) and is_some_cur(B)) or (is_next(B) and is_some_cur(A))

        for s in alone:
            ok = any(key_cmp(c, "!=") for c in b.conditions(s))
            ctx.ob("alone-only-if-key-differs|%s" % b.name, ok, "an action is spawned as its own task only if the next key differs from its key", [s])
        for s in seqspawn:
            conds = b.conditions(s)
            ok = any(key_cmp(c, "==") for c in conds)
            ctx.ob("sequence-if-key-equal|%s" % b.name, ok, "the SeqFuture path is taken when the next key equals the current key", [s])
            so = b.origins(s.args()[1], s)
            no = frozenset(("call", n.b, "util::seq_futures::SeqFuture::new") for n in news)
            ctx.ob("one-sequence-spawned|%s" % b.name, so == no and len(news) == 1 and not b.in_loop(s) or (so == no and len(news) == 1),
                   "exactly the SeqFuture that was filled is spawned, as one task", [s])
        # pushes: all into that SeqFuture, values = into_future(action pulled by the helper), in pull order
        for p in pushes:
            qo = b.origins(p.args()[0], p)
            ok = qo == frozenset(("call", n.b, "util::seq_futures::SeqFuture::new") for n in news)
            vo = b.origins(p.args()[1], p)
            ok2 = bool(vo) and all(x[0] == "call" and x[2] == "simulation::scheduler::Action::into_future" for x in vo)
            ctx.ob("push-into-the-sequence|%s" % b.name, ok and ok2, "each same-key action is converted with into_future and pushed into the one SeqFuture", [p])
            for x in vo:
                if x[0] != "call":
                    continue
                itf = Site(b, x[1], TERM)
                ao = b.origins(itf.args()[0], itf)
                # the pulled action: the pull helper call that is the most recent one (dominates the push, no other pull between)
                ok3 = bool(ao) and all(y[0] == "call" for y in ao)
                for y in ao:
                    if y[0] != "call":
                        continue
                    ps = Site(b, y[1], TERM)
                    others = [q for q in b.calls() if q.callee == ps.callee and q.key() != ps.key()]
                    ok3 = ok3 and b.dominates(ps, p) and not any(b.can_reach(ps, q) and b.can_reach(q, p) and not b.can_reach(q, ps) for q in others)
                ctx.ob("push-order-is-pull-order|%s" % b.name, ok3, "actions are pushed in the order they are pulled (no pull between a pull and its push)", [p])
        # the first action of a sequence is pushed before the loop pulls the next
        # continuation at the same time advances the current key
        adv_ok = False
        edges = []
        for blk in sorted(b.live_blocks):
            if b.blocks[blk]["term"]["t"] != "switch":
                continue
            for tgt in b.succ[blk]:
                c = Cond(b, blk, tgt)
                if c.kind == "cmp" and c.data[0] == "==" and c.data[1] and c.data[2] and \
                        all(origin_proj_names(o)[1][-1:] == [("f", "0")] for o in (c.data[1] | c.data[2])) and \
                        any(origin_proj_names(o)[0][0] == "call" and origin_proj_names(o)[0][2] == "std::ops::Fn::call" for o in (c.data[1] | c.data[2])):
                    edges.append(c)
        ctx.ob("same-time-test-present|%s" % b.name, len(edges) >= 1, "the loop continues only if the next key has the same time (k.0 == current_key.0)", [c.site for c in edges])
        # the local compared in `Some(current_key)`
        cur_locals = set()
        for s in alone + seqspawn:
            for c in b.conditions(s):
                if key_cmp(c, "!=") or key_cmp(c, "=="):
                    for o in (c.data[1] | c.data[2]):
                        if o[0] == "agg":
                            a = Site(b, o[1], o[2])
                            op = a.node["r"]["ops"][0]
                            # chase one copy back
                            if op["k"] in ("copy", "move") and not op["pl"]["p"]:
                                for d in b.reaching_defs(op["pl"]["l"], a):
                                    if not d.is_term and d.node["r"]["r"] == "use" and d.node["r"]["o"].get("pl") and not d.node["r"]["o"]["pl"]["p"]:
                                        cur_locals.add(d.node["r"]["o"]["pl"]["l"])
        for c in edges:
            for cl in cur_locals:
                for d in b.all_defs(cl):
                    if b.block_dominates(c.tgt, d.b) and not d.is_term:
                        vo = b.origins(d.node["r"]["o"], d) if d.node["r"]["r"] == "use" else frozenset()
                        if vo and all(origin_proj_names(o)[0][0] == "call" and origin_proj_names(o)[0][2] == "std::ops::Fn::call"
                                      and origin_proj_names(o)[1] == [("d", "Some"), ("f", "0")] for o in vo):
                            adv_ok = True
        ctx.ob("current-key-advances|%s" % b.name, adv_ok and bool(cur_locals),
               "when the loop continues at the same time the current key must be replaced by the next key (else later origins' "
               "same-key events are spawned as separate tasks and may run out of order)", [c.site for c in edges])


def rule_c(ctx):
    P = ctx.prog
    from . import inventory
    inventory.check(ctx, ["file:seq_futures"])
    b = ctx.body("<util::seq_futures::SeqFuture as std::future::Future>::poll")
    if not b:
        return
    polls = list(b.calls("std::future::Future::poll$"))
    ctx.ob("one-poll-site", len(polls) == 1, "SeqFuture::poll polls one element per iteration", polls)
    if len(polls) != 1:
        return
    p = polls[0]
    po = b.origins(p.args()[0], p)
    idx_ok = False
    for o in po:
        for c in origin_calls(o):
            if c[2] in ("std::ops::IndexMut::index_mut", "std::ops::Index::index", "core::slice::<impl [T]>::get_mut", "core::slice::<impl [T]>::get",
                        "std::vec::Vec::get_mut", "std::vec::Vec::get"):
                cs = Site(b, c[1], TERM)
                io = b.origins(cs.args()[1], cs)
                co = b.origins(cs.args()[0], cs)
                if all(origin_proj_names(x)[1][-1:] == [("f", "idx")] for x in io) and all(origin_proj_names(x)[1][-1:] == [("f", "inner")] for x in co) and io:
                    idx_ok = True
    ctx.ob("polls-element-idx", idx_ok, "the polled element is inner[idx]", [p])

    def ready_cond(c, truth):
        if c.kind == "call" and c.data[0] == "futures_task::Poll::is_ready" and c.data[1] is truth:
            return b.origins(c.data[2].args()[0], c.data[2]) == frozenset([("call", p.b, "std::future::Future::poll")])
        if c.kind == "call" and c.data[0] == "futures_task::Poll::is_pending" and c.data[1] is (not truth):
            return b.origins(c.data[2].args()[0], c.data[2]) == frozenset([("call", p.b, "std::future::Future::poll")])
        if c.kind == "variant" and c.data[0] == frozenset([("call", p.b, "std::future::Future::poll")]):
            return c.data[1] == ({"Ready"} if truth else {"Pending"}) and not c.data[2]
        return False

    incs = []
    for s in b.assigns():
        pp = s.node["p"]["p"]
        if pp and pp[-1] != "*" and pp[-1][0] == "f" and pp[-1][2] == "idx":
            incs.append(s)
    ctx.ob("one-increment-site", len(incs) == 1, "idx is advanced at exactly one site", incs)
    esc = K.field_escapes(ctx.prog, "util::seq_futures::SeqFuture", "idx")
    ctx.ob("idx-not-borrowed-mutably", not esc, "no &mut / raw pointer to SeqFuture::idx is taken (the increment is its only writer)", esc or incs)
    ow = K.whole_value_overwrites(ctx.prog, {"util::seq_futures::SeqFuture"})
    ctx.ob("seq-never-replaced-in-place", not ow, "no statement overwrites a live SeqFuture as a whole (that would rewind idx / drop queued futures)", ow or incs)
    for s in incs:
        conds = b.conditions(s)
        ok = any(ready_cond(c, True) for c in conds) and b.dominates(p, s)
        ctx.ob("advance-only-after-ready", ok, "idx advances only after the polled element returned Ready (a pending element must be polled again)", [s])
        vo = b.origins(s.node["r"]["o"], s) if s.node["r"]["r"] == "use" else frozenset()
        ok = False
        for o in vo:
            rt, names = origin_proj_names(o)
            if rt[0] == "bin" and rt[1] in ("AddWithOverflow", "Add") and rt[3] == ("const", 1, "1_usize") or (rt[0] == "bin" and rt[1] in ("AddWithOverflow", "Add") and rt[3][0] == "const" and rt[3][1] == 1):
                if origin_proj_names(rt[2])[1][-1:] == [("f", "idx")]:
                    ok = True
        ctx.ob("advance-by-one", ok, "idx advances by exactly one", [s])
        # at most one increment between two polls: the increment is followed by a re-poll or a return
        ctx.ob("one-advance-per-poll", not b.can_reach(s, s, avoiding=[p]), "idx advances at most once per polled element", [s])
    rets = K.ret_assigns(b)
    readys = [r for r in rets if not r.is_term and r.node["r"]["r"] == "agg" and r.node["r"].get("variant") == "Ready"]
    pendings = [r for r in rets if not r.is_term and r.node["r"]["r"] == "agg" and r.node["r"].get("variant") == "Pending"]
    ctx.ob("ready-and-pending-returned", bool(readys) and bool(pendings), "SeqFuture::poll returns both Ready and Pending", rets)
    for r in readys:
        conds = b.conditions(r)
        ok = any(c.kind == "cmp" and c.data[0] == "==" and
                 any(origin_proj_names(o)[1][-1:] == [("f", "idx")] for o in (c.data[1] | c.data[2])) and
                 any(x[2] == "std::vec::Vec::len" for o in (c.data[1] | c.data[2]) for x in origin_calls(o)) for c in conds)
        ctx.ob("ready-only-when-all-done", ok, "Ready is returned only when idx == inner.len()", [r])
    for r in pendings:
        ok = any(ready_cond(c, False) for c in b.conditions(r))
        ctx.ob("pending-only-when-element-pending", ok, "Pending is returned only when the polled element is pending", [r])
    # new / push
    nb = P.body("util::seq_futures::SeqFuture::new")
    if nb is None:
        ctx.missing("SeqFuture::new")
    else:
        aggs = list(nb.aggregates(adt="util::seq_futures::SeqFuture"))
        ok = len(aggs) == 1
        if ok:
            fo = dict(zip(aggs[0].node["r"]["fields"], aggs[0].node["r"]["ops"]))
            ok = "idx" in fo and fo["idx"].get("v") == 0
        ctx.ob("idx-starts-at-zero", ok, "a new SeqFuture starts at idx 0", aggs)
    pb = P.body("util::seq_futures::SeqFuture::push")
    if pb is None:
        ctx.missing("SeqFuture::push")
    else:
        ps = list(pb.calls("std::vec::Vec::push$"))
        from .inventory import STD_MUT
        # one push of the argument, unconditionally; no other content-changing call on the vector (reserve / len / capacity are fine)
        other_mut = [s for s in pb.calls(STD_MUT) if s.key() != (ps[0].key() if ps else None)]
        ok = len(ps) == 1 and pb.origins(ps[0].args()[1], ps[0]) == frozenset([("arg", 2)]) and not pb.conditions(ps[0]) and \
            not other_mut and not pb.in_loop(ps[0])
        ctx.ob("push-appends", ok, "SeqFuture::push appends the future at the end", ps)


def rule_d(ctx):
    from . import c20
    c20.rule_a(ctx)
    c20.rule_b(ctx)


def rule_e(ctx):
    from . import c10
    c10.rule_a(ctx)
    c10.rule_d(ctx)


def rule_f(ctx):
    """delivery of the chained sends to the model preserves their order"""
    from . import c02, c05, c12
    c02.rule_a(ctx)
    c05.recv_awaits_handler(ctx)
    c12.rule_a(ctx)
    c12.rule_d(ctx)

RULES = [
    ("C07.f", "each chained send completes when enqueued; FIFO mailbox; sequential receiver", rule_f),
    ("C07.a", "key = (time, origin id); 0 for the scheduler, channel id for a model", rule_a),
    ("C07.b", "same-key actions are chained in pull order in one task", rule_b),
    ("C07.c", "SeqFuture polls strictly in sequence", rule_c),
    ("C07.d", "queue is FIFO among equal keys", rule_d),
    ("C07.e", "periodic occurrence re-inserted when its predecessor is pulled", rule_e),
]


def rule_inventory(ctx):
    from . import inventory
    inventory.check(ctx, ['seq-future-build', 'file:seq_futures'])
    inventory.check_narrowing(ctx)


RULES.append(("C07.g", "state-mutation inventory: no new site that changes the content of the state this property rests on", rule_inventory))


def rule_commit(ctx):
    from . import mustpass
    for g, floor in [('sched-queue', 25)]:
        mustpass.commit_group(ctx, g, floor)


RULES.append(("C07.h", "branch-commit: between the decision to perform an effect and the effect there is no way out", rule_commit))


def rule_queue_order(ctx):
    """Same-key order in the scheduler queue is insertion order (C20.a/b): the comparator breaks ties by epoch, epochs are unique,
    increasing and not truncated."""
    from . import c20
    c20.rule_a(ctx)
    c20.rule_b(ctx)


RULES.append(("C07.i", "the scheduler queue is FIFO among equal keys (C20.a/b)", rule_queue_order))
