"""C19 Dropping a simulation releases everything exactly once — structural clauses a..d."""
from ..core import Site, TERM, norm, origin_calls, origin_proj_names, last_seg, Cond, origin_contains
from . import common as K
from . import c12, c13

EXPLANATION = (
    "Decides: (a) Drop of the multi-threaded executor: abort_signal.set() < activate_all_workers() < join of every drained "
    "worker handle < cancellation of every drained CancelToken, the cancellation loop running with a local worker installed "
    "and with ACTIVE_TASKS unset (so that futures dropped here cannot deregister tokens of an enclosing executor), all "
    "unconditional; Drop of the single-threaded executor state likewise (executor context set, ACTIVE_TASKS unset, every "
    "drained token cancelled); (b) CancellableFuture::drop removes exactly its own key from the active-task slab; "
    "Receiver::drop closes the queue then wakes all senders; the last Sender::drop closes and wakes the receiver (C12.b); "
    "(c) leak inventory: every mem::forget / ManuallyDrop::new / Box::into_raw / raw alloc site of the crate is one of the "
    "reviewed sites, and each ManuallyDrop field has its matching release (ManuallyDrop::take/drop) in an unconditional "
    "Drop path; task deallocation rules of C13.d; (d) Simulation and SimInit have no Drop impl and no ManuallyDrop field; "
    "the ordering floors of all reference-count decrements. NOT decided: exactly-once release on all interleavings of "
    "handles at run time."
)
TRUSTED = K.TRUSTED

MT_DROP = "<executor::mt_executor::Executor as std::ops::Drop>::drop"
ST_DROP = "<executor::st_executor::ExecutorInner as std::ops::Drop>::drop"


def _family_calls(P, root, pat):
    out = []
    for b in P.family(root):
        out += list(b.calls(pat))
    return out


def rule_a(ctx):
    P = ctx.prog
    d = ctx.body(MT_DROP)
    if d:
        sets = list(d.calls(r"^executor::Signal::set$"))
        act = list(d.calls(r"PoolManager::activate_all_workers$"))
        joins = list(d.calls(r"^std::thread::JoinHandle::join$"))
        drains = [s for s in d.calls(r"^std::vec::Vec::drain$")]
        pops = []
        if not drains:
            # the same loop written `while let Some(h) = self.worker_handles.pop()`: the vector is emptied one handle at a time
            pops = [s for s in d.calls(r"^std::vec::Vec::pop$") if d.in_loop(s) and
                    all(origin_proj_names(o)[1][-1:] == [("f", "worker_handles")] for o in d.origins(s.args()[0], s))]
            drains = pops
        lw = [s for s in d.calls(r"ScopedLocalKey::set$") if any(x[0] == "static" and x[1].endswith("LOCAL_WORKER") for x in d.origins(s.args()[0], s))]
        ok = len(sets) == 1 and len(act) == 1 and len(joins) == 1 and len(drains) == 1 and len(lw) == 1
        ctx.ob("mt|sites", ok, "executor drop = abort signal, activate all workers, join loop over drained handles, cancellation under LOCAL_WORKER", sets + act + joins + drains + lw)
        if ok:
            order = [sets[0], act[0], drains[0], lw[0]]
            ctx.ob("mt|order", all(d.dominates(a, b) for a, b in zip(order, order[1:])) and d.dominates(drains[0], joins[0]) and d.in_loop(joins[0]),
                   "the workers are told to abort and woken before they are joined; all are joined before tasks are cancelled", order + joins)
            ctx.ob("mt|unconditional", not any(d.conditions(x) for x in order[:3]) and all(c.kind == "variant" and c.data[1] == {"None"} for c in d.conditions(lw[0]))
                   and d.postdominates(lw[0], Site(d, 0, 0)),
                   "none of the shutdown steps is conditional", order)
            # the whole vector is drained
            ro = d.origins(drains[0].args()[1], drains[0]) if not pops else frozenset()
            full = bool(pops)  # a pop loop that ends only at None (must-pass mt-drop-joins) empties the vector
            for o in (ro if not pops else ()):
                if o[0] == "agg" and o[3] in ("std::ops::RangeFrom", "std::ops::RangeFull"):
                    a = Site(d, o[1], o[2])
                    ops = a.node["r"]["ops"]
                    full = (not ops) or ops[0].get("v") == 0
            ctx.ob("mt|all-workers-joined", full and d.postdominates(joins[0], drains[0]) is not None, "every worker handle is drained and joined", drains + joins)
            # join loop exits only when the drain iterator is exhausted
        # cancellation: inside ACTIVE_TASKS.unset, loop over active_tasks.drain(), cancel each
        fam = P.family(d)
        unsets = [s for b in fam for s in b.calls(r"ScopedLocalKey::unset$") if any(x[0] == "static" and x[1].endswith("ACTIVE_TASKS") for x in b.origins(s.args()[0], s))]
        cancels = [s for b in fam for s in b.calls(r"cancel_token::CancelToken::cancel$")]
        sdr = [s for b in fam for s in b.calls(r"^slab::Slab::drain$")]
        ok = len(unsets) == 1 and len(cancels) == 1 and len(sdr) == 1
        if ok:
            cb = cancels[0].body
            # the cancel loop lives in the closure passed to unset, which lives in the closure passed to LOCAL_WORKER.set
            ub = unsets[0].body
            ok = cb.name.startswith(ub.name + "::") and ub.name.startswith(d.name + "::") and cb.in_loop(cancels[0]) and not [c for c in cb.conditions(cancels[0]) if c.kind != "variant"]
            ok = ok and not ub.conditions(unsets[0])
            # cancelled token = element yielded by the drain
            to = cb.origins(cancels[0].args()[0], cancels[0])
            ok = ok and any(K.flows_from(cb, frozenset([x]), lambda t: t[0] == "call" and t[2] == "std::iter::Iterator::next") for x in to)
        ctx.ob("mt|cancel-all-with-active-tasks-unset", ok,
               "every drained CancelToken is cancelled, inside LOCAL_WORKER.set and ACTIVE_TASKS.unset (futures dropped during shutdown must not "
               "touch the task list of an enclosing executor)", unsets + sdr + cancels)
    # workers leave their loop once the abort signal is set: every task run is on the `!abort_signal.is_set()` side,
    # and after every park the signal is re-checked before searching for work
    for w in P.all_bodies():
        if not any(True for _ in w.calls(r"PoolManager::try_set_worker_inactive$")):
            continue
        runs = list(w.calls(r"executor::task::runnable::Runnable::run$"))
        for r in runs:
            ok = any(c.kind == "call" and c.data[0] == "executor::Signal::is_set" and c.data[1] is False for c in w.conditions(r))
            ctx.ob("worker|no-task-run-after-abort|%s" % K.owner_fn(P, w).name, ok, "a worker runs a task only after seeing the abort signal clear", [r])
        parks = list(w.calls("^parking::Parker::park$"))
        checks = list(w.calls("^executor::Signal::is_set$"))
        for pk in parks:
            ok = bool(runs) and not any(w.can_reach(pk, r, avoiding=checks) for r in runs)
            ctx.ob("worker|abort-checked-after-park|%s" % K.owner_fn(P, w).name, ok, "after being unparked a worker checks the abort signal before it can run any task", [pk])
        rets = [c for c in checks if any(True for _ in [0])]
        ctx.ob("floor|worker-abort-checks", len(checks) >= 2, "the worker loop checks the abort signal at least twice (after parking, before each task)", checks)
    s = ctx.body(ST_DROP)
    if s:
        fam = P.family(s)
        ec = [x for b in fam for x in b.calls(r"ScopedLocalKey::set$") if any(o[0] == "static" and o[1].endswith("EXECUTOR_CONTEXT") for o in b.origins(x.args()[0], x))]
        unsets = [x for b in fam for x in b.calls(r"ScopedLocalKey::unset$") if any(o[0] == "static" and o[1].endswith("ACTIVE_TASKS") for o in b.origins(x.args()[0], x))]
        cancels = [x for b in fam for x in b.calls(r"cancel_token::CancelToken::cancel$")]
        sdr = [x for b in fam for x in b.calls(r"^slab::Slab::drain$")]
        ok = len(ec) == 1 and len(unsets) == 1 and len(cancels) == 1 and len(sdr) == 1
        if ok:
            ok = ec[0].body is s and not s.conditions(ec[0]) and unsets[0].body.name.startswith(s.name + "::") and \
                cancels[0].body.name.startswith(unsets[0].body.name + "::") and cancels[0].body.in_loop(cancels[0])
        ctx.ob("st|cancel-all-under-context", ok, "the single-threaded executor cancels every drained token with its context set and ACTIVE_TASKS unset", ec + unsets + sdr + cancels)
    # cancel() of a token drops the future (C13) - the executors' Drop are the only Drop impls that cancel
    # the executor wrapper forwards drop
    sd = P.body("<executor::st_executor::Executor as std::ops::Drop>::drop")
    if sd is not None:
        ctx.ob("st|wrapper-drop-present", True, "single-threaded Executor has a Drop impl", [sd.loc()])


def rule_b(ctx):
    P = ctx.prog
    n = 0
    for mod in ("mt_executor", "st_executor"):
        b = P.body("<executor::%s::CancellableFuture as std::ops::Drop>::drop" % mod)
        if b is None:
            ctx.missing("CancellableFuture::drop in " + mod)
            continue
        n += 1
        fam = P.family(b)
        rem = [s for x in fam for s in x.calls(r"^slab::Slab::(try_remove|remove)$")]
        ok = len(rem) == 1
        if ok:
            ko = P.resolved_origins(rem[0].body, rem[0].args()[1], rem[0])
            ok = any(origin_proj_names(o)[1][-1:] == [("f", "cancellation_key")] for o in ko)
        ctx.ob("cancellable-drop-removes-own-key|%s" % mod, ok, "a dropped task future removes exactly its own CancelToken from the active-task list", rem)
        mp = [s for x in fam for s in x.calls(r"ScopedLocalKey::map$")]
        ctx.ob("cancellable-drop-uses-scoped-list|%s" % mod, len(mp) == 1, "the removal goes through ACTIVE_TASKS (a no-op when unset)", mp)
    ctx.ob("floor|cancellable-futures", n == 2, "both executors wrap tasks in a CancellableFuture")
    c12.rule_b(ctx)


# reviewed leak-capable sites: (owner function pattern, callee last segments)
REVIEWED_LEAKS = {
    "std::mem::forget": {"executor::task::runnable::run": 3},
    "std::alloc::alloc": {"executor::task::spawn": 1, "executor::task::spawn_and_forget": 1},
    "std::boxed::Box::into_raw": {"util::slot::slot": 1},
    "std::boxed::Box::leak": {},
    "std::boxed::Box::from_raw": {"util::slot::SlotWriter::write": 1, "<util::slot::SlotWriter as std::ops::Drop>::drop": 1,
                                  "<util::slot::SlotReader as std::ops::Drop>::drop": 1},
    "std::mem::ManuallyDrop::new": {
        "channel::queue::Queue::pop": 1,
        "executor::task::cancel_token::CancelToken::cancel": 1,
        "executor::task::runnable::run": 2,
        "executor::task::runnable::Runnable::run": 1,
        "executor::task::spawn": 1,
        "executor::task::spawn_and_forget": 1,
        "ports::output::broadcaster::BroadcastFuture::new": 1,
        "ports::output::sender::RecycledFuture::new": 1,
        "util::slot::SlotWriter::write": 1,
    },
}


def rule_c(ctx):
    P = ctx.prog
    for callee, table in REVIEWED_LEAKS.items():
        found = {}
        sites = {}
        for b in P.all_bodies():
            if "::tests" in b.name:
                continue
            for s in b.calls(lambda c, callee=callee: c == callee):
                o = K.owner_fn(P, b).name
                found[o] = found.get(o, 0) + 1
                sites.setdefault(o, []).append(s)
        for o, n in sorted(found.items()):
            ctx.ob("leak-inventory|%s|%s" % (last_seg(callee), o), table.get(o) == n,
                   "%s site(s) of %s in %s are not in the reviewed leak inventory (reviewed: %s)" % (n, callee, o, table.get(o, 0)), sites[o])
        for o, n in table.items():
            if o not in found:
                ctx.ob("leak-inventory|%s|%s" % (last_seg(callee), o), True, "reviewed site no longer present (nothing to release)", [])
    # an allocation handed out as a raw pointer keeps all its reviewed release sites (a removed release is a leak)
    for callee, table in (("std::boxed::Box::from_raw", REVIEWED_LEAKS["std::boxed::Box::from_raw"]),):
        for o, n in table.items():
            cnt = 0
            for b in P.all_bodies():
                if K.owner_fn(P, b).name == o:
                    cnt += len(list(b.calls(lambda c, callee=callee: c == callee)))
            ctx.ob("release-site-present|%s|%s" % (last_seg(callee), o), cnt == n,
                   "the reviewed release site(s) of the reply-slot allocation are still present in %s (found %d, reviewed %d)" % (o, cnt, n), [])
    # raw round trips of recycled boxes are paired within one function
    for b in P.all_bodies():
        a = len(list(b.calls(r"^recycle_box::RecycleBox::into_raw_parts$")))
        z = len(list(b.calls(r"^recycle_box::RecycleBox::from_raw_parts$")))
        if a or z:
            ctx.ob("raw-parts-paired|%s" % b.name, a == z, "RecycleBox::into_raw_parts / from_raw_parts are paired in the same function", [b.loc()])
    # ManuallyDrop fields and their release in Drop
    md_fields = []
    for name, a in P.adts.items():
        for v in a["variants"]:
            for f in v["fields"]:
                if f["ty"].startswith("std::mem::ManuallyDrop<") and a["kind"] != "Union":
                    md_fields.append((name, f["name"], a))
    for name, fname, a in md_fields:
        # the type must have a Drop impl whose body takes/drops this field unconditionally
        drops = [b for b in P.all_bodies() if b.impl_self == name and b.impl_trait and last_seg(norm(b.impl_trait)) in ("Drop", "PinnedDrop") and last_seg(b.name) == "drop"]
        ok = False
        sites = []
        for d in drops:
            for s in d.calls(r"^std::mem::ManuallyDrop::(take|drop)$"):
                o = d.origins(s.args()[0], s)
                if any(origin_proj_names(x)[1][-1:] == [("f", fname)] for x in o):
                    sites.append(s)
                    if not d.conditions(s) and not d.in_loop(s):
                        ok = True
        if name in ("channel::queue::MessageBorrow",):
            # released by vacating the box in Drop (RecycleBox::vacate)
            for d in drops:
                for cb in P.family(d):
                    for s in cb.calls(r"^std::mem::ManuallyDrop::take$|RecycleBox::vacate$"):
                        sites.append(s)
                        ok = True
        ctx.ob("manuallydrop-released|%s.%s" % (name, fname), ok,
               "a ManuallyDrop field must be released (ManuallyDrop::take/drop) unconditionally in the owner's Drop, whatever the owner's state", sites or ["field %s.%s" % (name, fname)])
    ctx.ob("floor|manuallydrop-fields", len(md_fields) >= 2, "expected >= 2 ManuallyDrop struct fields (found %d)" % len(md_fields))
    c13.rule_d(ctx)
    c13.rule_c(ctx)


def rule_d(ctx):
    P = ctx.prog
    for nm in ("simulation::Simulation", "simulation::sim_init::SimInit"):
        a = P.adts.get(nm)
        if not a:
            ctx.missing("adt " + nm)
            continue
        ctx.ob("no-drop-impl|%s" % nm, not a["impls"]["Drop"], "%s has no Drop impl: its fields (executor, queue, clock, observers) are dropped by the compiler" % nm, ["adt " + nm])
        md = [f["name"] for v in a["variants"] for f in v["fields"] if "ManuallyDrop<" in f["ty"] or "MaybeUninit<" in f["ty"]]
        ctx.ob("no-manuallydrop-field|%s" % nm, not md, "%s holds no ManuallyDrop / MaybeUninit field" % nm, md)
    a = P.adts.get("simulation::Simulation")
    if a:
        names = [f["name"] for f in a["variants"][0]["fields"]]
        ctx.ob("executor-owned-by-simulation", "executor" in names and "scheduler_queue" in names, "the Simulation owns the executor and the scheduler queue", ["adt Simulation"])
    for nm in ("executor::mt_executor::Executor", "executor::st_executor::ExecutorInner"):
        a = P.adts.get(nm)
        if a:
            ctx.ob("executor-has-drop|%s" % nm, a["impls"]["Drop"], "%s implements Drop" % nm, ["adt " + nm])
    K.check_floors(ctx, "C19")


RULES = [
    ("C19.a", "executor drop: stop, join, cancel everything", rule_a),
    ("C19.b", "futures deregister themselves; channel close/notify on drop", rule_b),
    ("C19.c", "leak inventory and release of ManuallyDrop fields; dealloc rules", rule_c),
    ("C19.d", "no custom Drop on Simulation; ordering floors of the decrements", rule_d),
]


def rule_inventory(ctx):
    from . import inventory
    inventory.check(ctx, ['file:st_executor', 'file:mt_executor'])


RULES.append(("C19.e", "state-mutation inventory: no new site that changes the content of the state this property rests on", rule_inventory))


def rule_mustpass(ctx):
    from . import mustpass
    mustpass.check(ctx, ['receiver-drop-closes', 'receiver-drop-notifies', 'mt-drop-joins', 'mt-drop-aborts'])


RULES.append(("C19.f", "must-pass-through: no path around the effects this property rests on (added fast paths / early returns)", rule_mustpass))


def rule_commit(ctx):
    from . import mustpass
    for g, floor in [('task-release', 40), ('executor-drop', 10), ('mailbox-signals', 12)]:
        mustpass.commit_group(ctx, g, floor)


RULES.append(("C19.g", "branch-commit: between the decision to perform an effect and the effect there is no way out", rule_commit))


def rule_runnable_exists(ctx):
    from . import c13
    c13.rule_runnable_exists(ctx)
    c13.rule_union_member(ctx)
    c13.rule_cancel_refcount(ctx)
    c13.rule_state_updates(ctx)
    c13.rule_waker_vtable(ctx)


RULES.append(("C19.h", "the runnable_exists predicate covers the wind-down phase (else a handle released while a cancelled poll winds down frees the task twice)", rule_runnable_exists))


def rule_slot(ctx):
    from . import slotproto
    slotproto.rules(ctx)


RULES.append(("C19.i", "reply slot of driver-side queries: the cell is freed by exactly one side, its value dropped exactly once (per-path evaluation of the state guards)", rule_slot))


def rule_scoped_keys(ctx):
    from . import scopedkey
    scopedkey.rules(ctx)


RULES.append(("C19.j", "scoped thread-local keys install, hand out and restore the right pointer: the active-task list used while dropping belongs to the executor being dropped", rule_scoped_keys))
