"""C17 Event sinks: FIFO bounded buffer, last-value slot, open/close — clauses a..c."""
from ..core import Site, TERM, norm, origin_calls, origin_proj_names, last_seg, Cond, origin_contains
from . import common as K

EXPLANATION = (
    "Decides: (a) EventBufferWriter::write touches the buffer only on the `is_open == true` side, evicts with pop_front "
    "exactly when len == capacity (the configured capacity field) and then always push_back's the event once; the reader's "
    "next() is pop_front of the same buffer (insert end != remove end, evict end == read end), __try_fold drains from the "
    "front; (b) EventSlotWriter::write is guarded by is_open and assigns Some(event) under the lock, next() is take(); "
    "open/close store true/false into the flag write() loads, for both sinks; constructors store the advertised initial "
    "state and capacity; (c) the sink senders call EventSinkWriter::write synchronously, once, inside the polled future "
    "(with the mapped value for map/filter_map variants, only on Some for filters). NOT decided: VecDeque/Mutex semantics "
    "(trusted), ordering of writes from different models."
)
TRUSTED = K.TRUSTED

EB = "ports::sink::event_buffer::"
ES = "ports::sink::event_slot::"


def _flag_load_conds(b, site, truth):
    out = []
    for c in b.conditions(site):
        if c.kind == "call" and c.data[0] == "std::sync::atomic::Atomic::load" and c.data[1] is truth:
            o = b.origins(c.data[2].args()[0], c.data[2])
            if any(origin_proj_names(x)[1][-1:] == [("f", "is_open")] for x in o):
                out.append(c)
    return out


def rule_a(ctx):
    P = ctx.prog
    b = ctx.body("<ports::sink::event_buffer::EventBufferWriter as ports::sink::EventSinkWriter>::write")
    if not b:
        return
    pops = list(b.calls("^std::collections::VecDeque::pop_front$"))
    pushes = list(b.calls(r"^std::collections::VecDeque::push_(back|front)$"))
    locks = list(b.calls("^std::sync::Mutex::lock$"))
    others = [s for s in b.calls(r"^std::collections::VecDeque::") if s.callee not in ("std::collections::VecDeque::pop_front", "std::collections::VecDeque::push_back", "std::collections::VecDeque::len")]
    ctx.ob("buffer|ops", len(pops) == 1 and len(pushes) == 1 and pushes[0].callee.endswith("push_back") and not others,
           "write uses exactly one pop_front (eviction) and one push_back (append)", pops + pushes + others)
    if not (len(pops) == 1 and len(pushes) == 1):
        return
    pop, push = pops[0], pushes[0]
    for s in [pop, push]:
        ctx.ob("buffer|open-guard|%s" % last_seg(s.callee), bool(_flag_load_conds(b, s, True)),
               "a closed buffer ignores writes: every buffer access is on the is_open == true side", [s])
    # evict iff len == capacity
    conds = b.conditions(pop)
    ok = False
    for c in conds:
        def is_len(sd):
            return bool(sd) and all(x[0] == "call" and x[2] == "std::collections::VecDeque::len" for x in sd)

        def is_cap(sd):
            return bool(sd) and all(origin_proj_names(x)[1][-1:] == [("f", "capacity")] for x in sd)

        # `len == capacity` or the equivalent `len >= capacity` (len never exceeds capacity)
        if c.kind == "cmp" and (
                (c.data[0] in ("==", ">=") and is_len(c.data[1]) and is_cap(c.data[2])) or
                (c.data[0] in ("==", "<=") and is_cap(c.data[1]) and is_len(c.data[2]))):
            ok = True
    ctx.ob("buffer|evict-iff-full", ok and len([c for c in conds if c.kind == "cmp"]) == 1,
           "the oldest event is evicted exactly when len == capacity", [pop])
    # push unconditional within the open side, after the eviction decision, pushes the event parameter
    pconds = [c for c in b.conditions(push) if c.kind == "cmp"]
    ctx.ob("buffer|always-append", not pconds and b.origins(push.args()[1], push) == frozenset([("arg", 2)]) and not b.in_loop(push),
           "an open buffer always appends the written event, once", [push])
    ctx.ob("buffer|evict-before-append", not b.can_reach(push, pop), "eviction happens before the append", [pop, push])
    # same buffer for len / pop / push
    lens = list(b.calls("^std::collections::VecDeque::len$"))
    qo = set()
    for s in lens + [pop, push]:
        qo.add(b.origins(s.args()[0], s))
    ctx.ob("buffer|same-deque", len(qo) == 1, "len, pop_front and push_back operate on the same locked deque", lens + [pop, push])
    # reader
    nb = ctx.body("<ports::sink::event_buffer::EventBuffer as std::iter::Iterator>::next")
    if nb:
        rets = K.ret_assigns(nb)
        ok = bool(rets) and all(r.is_term and r.callee == "std::collections::VecDeque::pop_front" for r in rets)
        ctx.ob("buffer|next-is-pop-front", ok, "the reader takes events from the front (FIFO; eviction removes the oldest)", rets)
    fb = ctx.body("<ports::sink::event_buffer::EventBuffer as ports::sink::EventSinkStream>::__try_fold")
    if fb:
        dr = list(fb.calls("^std::collections::VecDeque::drain$"))
        ok = len(dr) == 1 and "std::ops::RangeFull" in (dr[0].node.get("argtys") or ["", ""])[1]
        ctx.ob("buffer|try-fold-drains-front-to-back", ok, "__try_fold drains the whole deque in order", dr)
    # constructors
    for nm, want in (("with_capacity", True), ("with_capacity_closed", False)):
        cb = ctx.body(EB + "EventBuffer::" + nm)
        if not cb:
            continue
        aggs = list(cb.aggregates(adt=EB + "Inner"))
        ok = len(aggs) == 1
        if ok:
            fo = dict(zip(aggs[0].node["r"]["fields"], aggs[0].node["r"]["ops"]))
            ok = "capacity" in fo and "is_open" in fo and cb.origins(fo["capacity"], aggs[0]) == frozenset([("arg", 1)])
            if not ok:
                ctx.ob("buffer|ctor|%s" % nm, False, "%s must store the requested capacity in the buffer's `capacity` field" % nm, aggs)
                continue
            io = cb.origins(fo["is_open"], aggs[0])
            st = [Site(cb, x[1], TERM) for x in io if x[0] == "call"]
            ok = ok and len(st) == 1 and st[0].args()[0].get("v") is want
        ctx.ob("buffer|ctor|%s" % nm, ok, "%s stores the requested capacity and starts %s" % (nm, "open" if want else "closed"), aggs)


def rule_b(ctx):
    P = ctx.prog
    b = ctx.body("<ports::sink::event_slot::EventSlotWriter as ports::sink::EventSinkWriter>::write")
    if b:
        locks = list(b.calls("^std::sync::Mutex::(try_lock|lock)$"))
        ctx.ob("slot|lock-site", len(locks) == 1, "write takes the slot lock once", locks)
        for s in locks:
            ctx.ob("slot|open-guard", bool(_flag_load_conds(b, s, True)), "a closed slot ignores writes", [s])
        # the assignment *v = Some(event)
        aggs = [a for a in b.aggregates(adt="std::option::Option", variant="Some") if b.origins(a.node["r"]["ops"][0], a) == frozenset([("arg", 2)])]
        ok = len(aggs) == 1 and bool(_flag_load_conds(b, aggs[0], True)) and any(
            c.kind == "variant" and c.data[1] == {"Ok"} and not c.data[2] for c in b.conditions(aggs[0]))
        ctx.ob("slot|stores-some-event", ok, "under the lock the slot is overwritten with Some(event)", aggs)
        # the Some value is stored through the guard's deref_mut
        dm = list(b.calls("^std::ops::DerefMut::deref_mut$"))
        ctx.ob("slot|writes-through-guard", len(dm) == 1, "the value is written through the mutex guard", dm)
    nb = ctx.body("<ports::sink::event_slot::EventSlot as std::iter::Iterator>::next")
    if nb:
        tk = list(nb.calls(r"^std::option::Option::take$|^std::mem::take$"))
        rets = K.ret_assigns(nb)
        ok = len(tk) == 1 and any(r.is_term and r.key() == tk[0].key() for r in rets) and \
            any(c.kind == "variant" and c.data[1] == {"Ok"} for c in nb.conditions(tk[0]))
        ctx.ob("slot|next-is-take", ok, "reading the slot takes the value (yielded once, then None)", tk)
    # open / close for both sinks
    n = 0
    for sink, mod in (("EventBuffer", EB), ("EventSlot", ES)):
        for meth, want in (("open", True), ("close", False)):
            ob = P.body("<%s%s as ports::sink::EventSinkStream>::%s" % (mod, sink, meth))
            if ob is None:
                ctx.missing("%s::%s" % (sink, meth))
                continue
            st = list(ob.calls("^std::sync::atomic::Atomic::store$"))
            ok = len(st) == 1 and st[0].args()[1].get("v") is want and not ob.conditions(st[0]) and \
                any(origin_proj_names(x)[1][-1:] == [("f", "is_open")] for x in ob.origins(st[0].args()[0], st[0]))
            n += 1
            ctx.ob("flag|%s::%s" % (sink, meth), ok, "%s stores %s into the is_open flag that write() loads" % (meth, str(want).lower()), st)
    ctx.ob("floor|open-close", n == 4, "open and close exist for both sinks")
    for nm, want in (("new", True), ("new_closed", False)):
        cb = ctx.body(ES + "EventSlot::" + nm)
        if not cb:
            continue
        aggs = list(cb.aggregates(adt=ES + "Inner"))
        ok = len(aggs) == 1
        if ok:
            fo = dict(zip(aggs[0].node["r"]["fields"], aggs[0].node["r"]["ops"]))
            io = cb.origins(fo["is_open"], aggs[0])
            st = [Site(cb, x[1], TERM) for x in io if x[0] == "call"]
            ok = len(st) == 1 and st[0].args()[0].get("v") is want
        ctx.ob("slot|ctor|%s" % nm, ok, "%s starts %s" % (nm, "open" if want else "closed"), aggs)


def rule_c(ctx):
    P = ctx.prog
    WR = "ports::sink::EventSinkWriter::write"
    SND = "ports::output::sender::Sender"
    kinds = {}
    for b in P.all_bodies():
        if b.name.startswith("<ports::output::sender::") and "EventSinkSender as " + SND + ">::" in b.name:
            ty = b.name.split(" as ")[0][1:]
            kinds.setdefault(ty, []).append(b)
    ctx.ob("floor|sink-senders", len(kinds) >= 3, "expected the 3 sink sender variants (plain, map, filter_map); found %d" % len(kinds), sorted(kinds))
    for ty, bodies in sorted(kinds.items()):
        ws = [s for b in bodies for s in b.calls(lambda c: c == WR)]
        ok = len(ws) == 1 and not ws[0].body.in_loop(ws[0]) and not ws[0].body.conditions(ws[0])
        ctx.ob("sink-write-once|%s" % ty, ok, "a sink sender writes the event exactly once per send, unconditionally inside the send future", ws)
        if len(ws) != 1:
            continue
        w = ws[0]
        ctx.ob("sink-write-in-future|%s" % ty, w.body.kind == "coroutine", "the write happens synchronously inside the polled send future", [w])
        send = P.body("<%s as %s>::send" % (ty, SND))
        if send is None:
            ctx.missing("send of " + ty)
            continue
        rets = K.ret_assigns(send)
        if "FilterMap" in ty:
            ok = bool(rets) and all(r.is_term and r.callee == "std::option::Option::map" for r in rets)
            if ok:
                r = rets[0]
                fo = send.origins(r.args()[0], r)
                ok = bool(fo) and all(x[0] == "call" and x[2] in ("std::ops::Fn::call", "std::ops::FnMut::call_mut") for x in fo)
                # the write lives in the closure given to map (so it happens iff Some), with the Some payload
                co = send.origins(r.args()[1], r)
                ok = ok and any(x[0] == "agg" and x[3] and w.body.name.startswith(x[3]) for x in co)
            ctx.ob("filter-skips-iff-none|%s" % ty, ok,
                   "a filter_map sink connection sends nothing exactly when the filter returned None (Option::map over the filter result)", rets)
        elif "Map" in ty:
            maps = [s2 for s2 in send.calls(r"^std::ops::Fn::call$")]
            ok = len(maps) == 1
            if ok:
                # the written value is the mapped value: captured from the call's result
                vo = P.resolved_origins(w.body, w.args()[1], w)
                ok = any(x == ("call", maps[0].b, "std::ops::Fn::call") for x in vo)
            ctx.ob("map-applied|%s" % ty, ok, "a map sink connection writes the result of the mapping closure, applied once", maps + [w])
        else:
            vo = P.resolved_origins(w.body, w.args()[1], w)
            ctx.ob("plain-writes-event|%s" % ty, bool(vo) and all(x[0] == "arg" for x in vo), "a plain sink connection writes the event itself", [w])


def rule_d(ctx):
    """events of one output reach a sink in sending order"""
    from . import c02, bcast
    c02.rule_b(ctx)
    bcast.fanout_rules(ctx, "output")
    # the broadcast that carries the event completes (polling discipline, slot hand-over): otherwise later events of that output never leave
    bcast.poll_rules(ctx, "output")
    bcast.output_slot_rules(ctx)
    # a sink connected through any clone of the output is seen by the model's clone (shared connection list, epoch protocol: C14.d)
    from . import c14
    c14.rule_d(ctx)

RULES = [
    ("C17.d", "port sends are awaited in place; fan-out visits each connection once per send", rule_d),
    ("C17.a", "EventBuffer: open guard, evict oldest iff full, append, read from front", rule_a),
    ("C17.b", "EventSlot: open guard, overwrite, take; open/close flags", rule_b),
    ("C17.c", "sink senders write once, synchronously", rule_c),
]


def rule_inventory(ctx):
    from . import inventory
    inventory.check(ctx, ['file:event_buffer', 'file:event_slot'])
    inventory.check_narrowing(ctx)


RULES.append(("C17.e", "state-mutation inventory: no new site that changes the content of the state this property rests on", rule_inventory))


def rule_mustpass(ctx):
    from . import mustpass
    mustpass.check(ctx, ['buffer-write-pushes', 'slot-write-stores', 'sink-senders-write', 'slot-next-locks', 'buffer-next-pops'])


RULES.append(("C17.f", "must-pass-through: no path around the effects this property rests on (added fast paths / early returns)", rule_mustpass))


def rule_commit(ctx):
    from . import mustpass
    for g, floor in [('sinks', 6), ('ports', 80)]:
        mustpass.commit_group(ctx, g, floor)


RULES.append(("C17.g", "branch-commit: between the decision to perform an effect and the effect there is no way out", rule_commit))
