"""K6(i): memory-ordering floor table (DESIGN.md Appendix A), confirmed by reading the code and its comments.

Entry: (function, receiver field, operation, index in CFG order among equal triples) ->
       (floors per Ordering argument, properties, reason)
A site passes if each ordering argument is at least as strong as its floor in
Relaxed < {Acquire, Release} < AcqRel < SeqCst.  The operation kind is part of the key: replacing an RMW by a plain
store/load (which would break a release sequence) makes the entry disappear and is reported as a missing anchor.
Sites of the crate that are not listed are unconstrained (hints, statistics, lock-protected data) and are only counted.
"""

T = "executor::task::"
PM = "executor::mt_executor::pool_manager::PoolManager::"
Q = "channel::queue::"
TS = "util::task_set::"

TABLE = {
    # ---- mailbox (C12, C02, C03, C19) ------------------------------------------------------------------
    ("<channel::Sender as std::ops::Drop>::drop", "sender_count", "fetch_sub", 0):
        (["Release"], ["C12", "C19"], "all sends of the dropped handle must be visible to the sender that closes the channel"),
    ("<channel::Sender as std::ops::Drop>::drop", "", "fence", 0):
        (["Acquire"], ["C12", "C19"], "the last sender closes after seeing all other senders' operations"),
    ("<channel::queue::MessageBorrow as std::ops::Drop>::drop", "stamp", "store", 0):
        (["Release"], ["C12", "C03", "C02"], "hands the vacated box / free slot back to producers"),
    (Q + "Queue::push", "stamp", "load", 0):
        (["Acquire"], ["C12", "C03"], "the producer must see the consumer's vacated box before overwriting the slot"),
    (Q + "Queue::push", "stamp", "store", 0):
        (["Release"], ["C12", "C02", "C03"], "publishes the message to the consumer"),
    (Q + "Queue::pop", "stamp", "load", 0):
        (["Acquire"], ["C12", "C02", "C03"], "the consumer must see the message written by the producer"),
    (Q + "Queue::push", "enqueue_pos", "compare_exchange_weak", 0):
        (["-", "-"], ["C12"], "RMW required: exactly one producer claims a position (ownership itself comes from the stamp)"),
    (Q + "Queue::close", "enqueue_pos", "fetch_or", 0):
        (["-"], ["C12"], "RMW required: sets the closed flag without losing concurrent position updates"),
    # ---- reply slot of driver-side queries (util/slot.rs) ("SLOT" = slotproto rules, carried by C14 and C19) ----------
    ("util::slot::SlotWriter::write", "state", "fetch_or", 0):
        (["Release"], ["SLOT"], "publishes the written value to try_read / the reader's Drop"),
    ("util::slot::SlotWriter::write", "", "fence", 0):
        (["Acquire"], ["SLOT"], "the reader's accesses have completed before the writer frees the cell"),
    ("<util::slot::SlotWriter as std::ops::Drop>::drop", "state", "load", 0):
        (["Acquire"], ["SLOT"], "if CLOSED is seen, the reader's accesses have completed before the cell is freed"),
    ("<util::slot::SlotWriter as std::ops::Drop>::drop", "state", "fetch_or", 0):
        (["AcqRel"], ["SLOT"], "hand-over in both directions: frees after the reader / lets the reader free after us"),
    ("util::slot::SlotReader::try_read", "state", "load", 0):
        (["Acquire"], ["SLOT"], "the value written before POPULATED was published is visible"),
    ("<util::slot::SlotReader as std::ops::Drop>::drop", "state", "load", 0):
        (["Acquire"], ["SLOT"], "if CLOSED is seen, the writer's value / accesses are visible before drop and free"),
    ("<util::slot::SlotReader as std::ops::Drop>::drop", "state", "fetch_or", 0):
        (["AcqRel"], ["SLOT"], "hand-over in both directions"),
    # ---- pool manager (C04, C06) ---------------------------------------------------------------------------
    (PM + "activate_worker", "active_workers", "fetch_or", 0):
        (["Release"], ["C04"], "dummy RMW: makes injected tasks visible to the last active worker (release sequence)"),
    (PM + "try_set_worker_inactive", "active_workers", "fetch_update", 0):
        (["Release", "-"], ["C04", "C06"], "release sequence read by the last worker's fence and by pool_is_idle"),
    (PM + "try_set_worker_inactive", "", "fence", 0):
        (["Acquire"], ["C04"], "the last worker sees all tasks injected before unsuccessful activations"),
    (PM + "set_all_workers_inactive", "active_workers", "store", 0):
        (["Release"], ["C04", "C06"], "publishes worker effects and the folded message count to Executor::run"),
    (PM + "pool_is_idle", "active_workers", "load", 0):
        (["Acquire"], ["C04", "C06"], "reader side of the above"),
    # ---- task state machine (C13, C05, C04, C19) -------------------------------------------------------------
    (T + "Task::wake", "state", "fetch_add", 0):
        (["Release"], ["C13", "C04", "C05"], "the waker's writes must be visible to the poll that the wake triggers; release sequence"),
    (T + "Task::wake_by_val", "", "fence", 0):
        (["Acquire"], ["C13", "C19"], "before dropping the output / deallocating"),
    (T + "Task::drop_waker", "state", "fetch_sub", 0):
        (["Release"], ["C13", "C19"], "reference decrement"),
    (T + "Task::drop_waker", "", "fence", 0):
        (["Acquire"], ["C13", "C19"], "before drop / dealloc by the last reference"),
    (T + "runnable::run", "state", "load", 0):
        (["Acquire"], ["C13", "C05"], "sees the future as left by the previous poll and the waker's writes"),
    (T + "runnable::run", "state", "fetch_sub", 0):
        (["AcqRel"], ["C13", "C04", "C05"], "Release: the next Runnable sees the future; Acquire: the re-poll sees the waker's writes"),
    (T + "runnable::run", "state", "fetch_update", 0):
        (["Release", "-"], ["C13", "C19"], "completion: the output is visible to whoever takes or drops it"),
    (T + "runnable::run", "state", "fetch_and", 0):
        (["Release"], ["C13", "C19"], "closing after the output was dropped"),
    (T + "runnable::run", "", "fence", 0):
        (["Acquire"], ["C13", "C19"], "before dealloc"),
    (T + "runnable::run::{closure#2}", "state", "fetch_update", 0):
        (["Release", "-"], ["C13", "C19"], "panic guard: future dropped, state closed"),
    (T + "runnable::run::{closure#2}", "", "fence", 0):
        (["Acquire"], ["C13", "C19"], "before dealloc in the panic guard"),
    (T + "runnable::cancel", "", "fence", 0):
        (["Acquire"], ["C13"], "sees the future as left by the previous Runnable"),
    (T + "runnable::cancel::{closure#0}", "state", "fetch_update", 0):
        (["Release", "-"], ["C13", "C19"], "future dropped by the cancelled runnable"),
    (T + "runnable::cancel::{closure#0}", "", "fence", 0):
        (["Acquire"], ["C13", "C19"], "before dealloc"),
    (T + "cancel_token::cancel", "state", "fetch_update", 0):
        (["AcqRel", "-"], ["C13", "C19"], "Acquire to drop the future/output, Release for the final deallocator"),
    (T + "cancel_token::cancel::{closure#3}", "state", "fetch_sub", 0):
        (["Release"], ["C13", "C19"], "reference decrement in the drop guard"),
    (T + "cancel_token::cancel::{closure#3}", "", "fence", 0):
        (["Acquire"], ["C13", "C19"], "before dealloc"),
    (T + "cancel_token::drop", "state", "fetch_sub", 0):
        (["Release"], ["C13", "C19"], "reference decrement"),
    (T + "cancel_token::drop", "", "fence", 0):
        (["Acquire"], ["C13", "C19"], "before dealloc"),
    (T + "promise::poll", "state", "fetch_update", 0):
        (["Acquire", "-"], ["C13"], "the output must be visible before it is moved out"),
    (T + "promise::drop", "state", "fetch_sub", 0):
        (["Release"], ["C13", "C19"], "reference decrement"),
    (T + "promise::drop", "", "fence", 0):
        (["Acquire"], ["C13", "C19"], "before dealloc"),
    # ---- sync cell / seqlock (C15, C01) -----------------------------------------------------------------------
    ("util::sync_cell::SyncCell::write", "", "fence", 0):
        (["Release"], ["C15"], "orders the odd sequence store before the tearable store"),
    ("util::sync_cell::SyncCell::write", "sequence", "store", 1):
        (["Release"], ["C15"], "the value is completely written when the even sequence is observed"),
    ("util::sync_cell::SyncCellReader::try_read", "sequence", "load", 0):
        (["Acquire"], ["C15"], "reader entry"),
    ("util::sync_cell::SyncCellReader::try_read", "", "fence", 0):
        (["Acquire"], ["C15"], "orders the tearable load before the sequence re-check"),
    # ---- task set of the broadcasters (C14) ------------------------------------------------------------------
    (TS + "TaskSet::take_scheduled", "head", "compare_exchange_weak", 0):
        (["Acquire", "-"], ["C14"], "sees the `next` links and the sub-tasks' effects"),
    ("<util::task_set::Task as futures_task::ArcWake>::wake_by_ref", "head", "compare_exchange_weak", 0):
        (["Release", "-"], ["C14"], "publishes `next` and the waker's writes"),
    ("<util::task_set::Task as futures_task::ArcWake>::wake_by_ref", "next", "compare_exchange_weak", 1):
        (["Release", "-"], ["C14"], "already-scheduled case: no-op CAS keeps the release sequence"),
    ("<util::task_set::Task as futures_task::ArcWake>::wake_by_ref", "next", "swap", 0):
        (["-"], ["C14"], "RMW required after a failed head CAS (keeps the release sequence)"),
    ("<util::task_set::TaskIterator as std::iter::Iterator>::next", "next", "swap", 0):
        (["Acquire"], ["C14"], "pairs with the no-op CAS of wake_by_ref"),
}


def entries_for(pid):
    return {k: v for k, v in TABLE.items() if pid in v[1]}
