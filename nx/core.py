"""Fact base + CFG analyses (engine E2 core).

A `Program` holds all bodies / ADTs / impls of one configuration.  A `Body`
offers the normal-edge CFG, dominators, post-dominators, loops, reaching
definitions, value origins, guard conditions and a must-hold dataflow.
Nothing here is specific to one property.
"""
import re
from collections import defaultdict

TERM = 10**6  # statement index used for the terminator of a block


# ---------------------------------------------------------------------------
# names

def norm(path):
    """Strip generic arguments from a def path.

    `util::sync_cell::SyncCell::<T>::read` -> `util::sync_cell::SyncCell::read`
    `<channel::Sender<M> as std::ops::Drop>::drop` -> `<channel::Sender as std::ops::Drop>::drop`
    """
    if path is None:
        return None
    out = []
    i = 0
    n = len(path)
    while i < n:
        c = path[i]
        if c == "<":
            # qualified path / impl header: keep (normalised) when at the start of a segment
            j = _match(path, i)
            inner = path[i + 1 : j]
            if i == 0 or inner.startswith("impl "):
                out.append("<" + _norm_inner(inner) + ">")
            # else: generic args -> dropped (also drop a preceding '::')
            elif out and out[-1] == "::":
                out.pop()
            i = j + 1
            continue
        if path.startswith("::", i):
            out.append("::")
            i += 2
            continue
        out.append(c)
        i += 1
    s = "".join(out)
    return s


def _ident_before(path, i):
    return i > 0 and (path[i - 1].isalnum() or path[i - 1] in "_>}")


def _match(s, i):
    depth = 0
    j = i
    while j < len(s):
        if s[j] == "<":
            depth += 1
        elif s[j] == ">" and not (j > 0 and s[j - 1] == "-"):
            depth -= 1
            if depth == 0:
                return j
        j += 1
    return len(s) - 1


def _norm_inner(inner):
    # "X<..> as Y<..>"  or "impl Tr for X<..>"
    for sep in (" as ", " for "):
        k = _find_top(inner, sep)
        if k >= 0:
            return _norm_ty(inner[:k]) + sep + _norm_ty(inner[k + len(sep):])
    return _norm_ty(inner)


def _find_top(s, sep):
    depth = 0
    i = 0
    while i < len(s):
        if s[i] == "<":
            depth += 1
        elif s[i] == ">" and not (i > 0 and s[i - 1] == "-"):
            depth -= 1
        elif depth == 0 and s.startswith(sep, i):
            return i
        i += 1
    return -1


def _norm_ty(t):
    """Strip generic args from a type string (keeps `impl ` / `&` prefixes)."""
    out = []
    i = 0
    while i < len(t):
        if t[i] == "<":
            j = _match(t, i)
            if i == 0:
                out.append("<" + _norm_inner(t[1:j]) + ">")
            elif out and out[-1] == "::":
                out.pop()
            i = j + 1
            continue
        if t.startswith("::", i):
            out.append("::")
            i += 2
            continue
        out.append(t[i])
        i += 1
    return "".join(out)


def last_seg(path):
    return path.rsplit("::", 1)[-1]


# ---------------------------------------------------------------------------
# sites

class Site:
    """A position in a body: (block, statement index | TERM)."""
    __slots__ = ("body", "b", "i")

    def __init__(self, body, b, i):
        self.body = body
        self.b = b
        self.i = i

    @property
    def is_term(self):
        return self.i == TERM

    @property
    def node(self):
        blk = self.body.blocks[self.b]
        return blk["term"] if self.i == TERM else blk["stmts"][self.i]

    @property
    def line(self):
        return self.node.get("line", 0)

    def loc(self):
        return "%s:%s" % (self.body.file, self.line)

    def key(self):
        return (self.body.path, self.b, self.i)

    def __eq__(self, o):
        return isinstance(o, Site) and self.key() == o.key()

    def __hash__(self):
        return hash(self.key())

    def __lt__(self, o):
        return self.key() < o.key()

    def __repr__(self):
        return "<%s bb%d%s %s>" % (self.body.name, self.b, "" if self.i == TERM else "[%d]" % self.i, self.loc())

    # call helpers
    @property
    def callee(self):
        n = self.node
        return n.get("callee_n") if n.get("t") in ("call", "tailcall") else None

    @property
    def resolved(self):
        n = self.node
        return n.get("resolved_n") if n.get("t") in ("call", "tailcall") else None

    def args(self):
        return self.node.get("args", [])

    def describe(self):
        n = self.node
        if n.get("t") == "call":
            return "call %s at %s" % (n.get("callee_n") or "<indirect>", self.loc())
        if n.get("t"):
            return "%s at %s" % (n["t"], self.loc())
        return "%s at %s" % (n.get("s"), self.loc())


# ---------------------------------------------------------------------------

TRANSPARENT = {
    # callee (normalised) -> index of the argument whose value flows through
    "std::result::Result::unwrap": 0,
    "std::result::Result::expect": 0,
    "std::option::Option::unwrap": 0,
    "std::option::Option::expect": 0,
    "std::ops::Deref::deref": 0,
    "std::ops::DerefMut::deref_mut": 0,
    "std::convert::AsRef::as_ref": 0,
    "std::convert::AsMut::as_mut": 0,
    "std::option::Option::as_ref": 0,
    "std::option::Option::as_mut": 0,
    "std::option::Option::as_deref": 0,
    "std::option::Option::as_deref_mut": 0,
    "std::convert::Into::into": 0,
    "std::convert::From::from": 0,
    "std::ops::Try::branch": 0,
    "std::ops::FromResidual::from_residual": 0,
    "std::pin::Pin::new": 0,
    "std::pin::Pin::new_unchecked": 0,
    "std::pin::Pin::as_mut": 0,
    "std::pin::Pin::get_mut": 0,
    "std::pin::Pin::get_unchecked_mut": 0,
    "std::pin::Pin::into_inner": 0,
    "std::future::IntoFuture::into_future": 0,
    "std::iter::IntoIterator::into_iter": 0,
    "std::borrow::Borrow::borrow": 0,
    "std::borrow::BorrowMut::borrow_mut": 0,
    "std::mem::ManuallyDrop::new": 0,
    "std::boxed::Box::new": 0,
    "std::boxed::Box::pin": 0,
    "std::sync::Arc::new": 0,
}
CLONES = {"std::clone::Clone::clone", "std::string::ToString::to_string", "std::borrow::ToOwned::to_owned"}


class Body:
    def __init__(self, rec, prog):
        self.rec = rec
        self.prog = prog
        self.path = rec["path"]
        self.name = norm(rec["path"])
        self.kind = rec["kind"]
        self.file = rec["file"]
        self.line = rec["line"]
        self.argc = rec["argc"]
        self.blocks = rec["blocks"]
        self.locals = rec["locals"]
        self.impl_self = rec.get("impl_self")
        self.impl_trait = rec.get("impl_trait")
        self.vis = rec.get("vis")
        self.parent = norm(rec["parent"]) if rec.get("parent") else None
        for blk in self.blocks:
            t = blk["term"]
            if t["t"] in ("call", "tailcall"):
                t["callee_n"] = norm(t.get("callee")) if t.get("callee") else None
                t["resolved_n"] = norm(t.get("resolved")) if t.get("resolved") else None
        self._succ = None
        self._pred = None
        self._dom = None
        self._pdom = None
        self._rd = None
        self._reach_cache = {}
        self.debug_names = {}
        for d in rec.get("debug", []):
            pl = d["pl"]
            self.debug_names.setdefault(pl["l"], []).append((d["name"], pl["p"]))

    def __repr__(self):
        return "<Body %s>" % self.name

    def loc(self):
        return "%s:%s" % (self.file, self.line)

    def is_public(self):
        return self.vis == "Public"

    # ---- CFG ----------------------------------------------------------
    def _edges(self, b, unwind=False):
        t = self.blocks[b]["term"]
        k = t["t"]
        out = []
        if k == "goto":
            out.append(t["to"])
        elif k == "switch":
            seen = set()
            for _, tb in t["targets"]:
                if tb not in seen:
                    seen.add(tb)
                    out.append(tb)
            if t["otherwise"] not in seen:
                out.append(t["otherwise"])
        elif k in ("call", "drop", "assert", "falseunwind"):
            if t.get("to") is not None:
                out.append(t["to"])
            if unwind and t.get("unwind") is not None:
                out.append(t["unwind"])
        elif k == "yield":
            out.append(t["to"])
            if unwind and t.get("drop") is not None:
                out.append(t["drop"])
        elif k == "falseedge":
            out.append(t["to"])
        return out

    @property
    def succ(self):
        if self._succ is None:
            self._succ = [self._edges(b) for b in range(len(self.blocks))]
            self._pred = [[] for _ in self.blocks]
            for b, ss in enumerate(self._succ):
                for s in ss:
                    self._pred[s].append(b)
        return self._succ

    @property
    def pred(self):
        self.succ
        return self._pred

    def succ_unwind(self, b):
        return self._edges(b, unwind=True)

    def reachable(self, start=0, removed_edge=None, removed_blocks=(), unwind=False):
        seen = set()
        if start in removed_blocks:
            return seen
        stack = [start]
        seen.add(start)
        while stack:
            b = stack.pop()
            ss = self._edges(b, unwind=True) if unwind else self.succ[b]
            for s in ss:
                if removed_edge and (b, s) == removed_edge:
                    continue
                if s in removed_blocks:
                    continue
                if s not in seen:
                    seen.add(s)
                    stack.append(s)
        return seen

    @property
    def live_blocks(self):
        r = self._reach_cache.get("live")
        if r is None:
            r = self.reachable(0)
            self._reach_cache["live"] = r
        return r

    def return_blocks(self):
        return [b for b in self.live_blocks if self.blocks[b]["term"]["t"] == "return"]

    # ---- dominators (block level, normal edges) -------------------------
    def _compute_dom(self):
        live = self.live_blocks
        # reverse post-order
        order = []
        seen = set()

        def dfs(b):
            stack = [(b, iter(self.succ[b]))]
            seen.add(b)
            while stack:
                node, it = stack[-1]
                adv = False
                for s in it:
                    if s not in seen:
                        seen.add(s)
                        stack.append((s, iter(self.succ[s])))
                        adv = True
                        break
                if not adv:
                    order.append(node)
                    stack.pop()

        dfs(0)
        rpo = list(reversed(order))
        idx = {b: i for i, b in enumerate(rpo)}
        idom = {0: 0}
        changed = True
        while changed:
            changed = False
            for b in rpo[1:]:
                preds = [p for p in self.pred[b] if p in idom and p in live]
                if not preds:
                    continue
                new = preds[0]
                for p in preds[1:]:
                    a, c = p, new
                    while a != c:
                        while idx[a] > idx[c]:
                            a = idom[a]
                        while idx[c] > idx[a]:
                            c = idom[c]
                    new = a
                if idom.get(b) != new:
                    idom[b] = new
                    changed = True
        self._dom = idom
        self._rpo = rpo
        self._rpo_idx = idx

    @property
    def idom(self):
        if self._dom is None:
            self._compute_dom()
        return self._dom

    @property
    def rpo_index(self):
        self.idom
        return self._rpo_idx

    def block_dominates(self, a, b):
        """a dom b (block level, reflexive)."""
        idom = self.idom
        if b not in idom or a not in idom:
            return False
        while True:
            if a == b:
                return True
            if b == 0:
                return False
            b = idom[b]

    def dominates(self, sa, sb):
        """site sa strictly precedes sb on every path from entry to sb."""
        if sa.b == sb.b:
            return sa.i < sb.i
        return self.block_dominates(sa.b, sb.b)

    # ---- post-dominators ---------------------------------------------
    def _compute_pdom(self):
        live = self.live_blocks
        exits = self.return_blocks()
        EXIT = -1
        succ = {b: [s for s in self.succ[b] if s in live] for b in live}
        for e in exits:
            succ[e] = [EXIT]
        succ[EXIT] = []
        pred = defaultdict(list)
        for b, ss in succ.items():
            for s in ss:
                pred[s].append(b)
        # blocks that cannot reach EXIT (diverging / infinite loops) are ignored
        order = []
        seen = {EXIT}
        stack = [(EXIT, iter(pred[EXIT]))]
        while stack:
            node, it = stack[-1]
            adv = False
            for s in it:
                if s not in seen:
                    seen.add(s)
                    stack.append((s, iter(pred[s])))
                    adv = True
                    break
            if not adv:
                order.append(node)
                stack.pop()
        rpo = list(reversed(order))
        idx = {b: i for i, b in enumerate(rpo)}
        ipdom = {EXIT: EXIT}
        changed = True
        while changed:
            changed = False
            for b in rpo[1:]:
                ss = [s for s in succ[b] if s in ipdom]
                if not ss:
                    continue
                new = ss[0]
                for p in ss[1:]:
                    a, c = p, new
                    while a != c:
                        while idx[a] > idx[c]:
                            a = ipdom[a]
                        while idx[c] > idx[a]:
                            c = ipdom[c]
                    new = a
                if ipdom.get(b) != new:
                    ipdom[b] = new
                    changed = True
        self._pdom = ipdom

    def block_postdominates(self, a, b):
        """every path from b to a return passes a (reflexive). Paths that never return are ignored."""
        if self._pdom is None:
            self._compute_pdom()
        ip = self._pdom
        if b not in ip:
            return True  # b cannot reach a return: vacuous
        if a not in ip:
            return False
        while True:
            if a == b:
                return True
            if b == -1:
                return False
            b = ip[b]

    def postdominates(self, sa, sb):
        """every normal path from sb to a return passes sa (after sb)."""
        if sa.b == sb.b and sa.i > sb.i:
            return True
        if sa.b == sb.b:
            # must loop back to the block
            return all(self.block_postdominates(sa.b, s) for s in self.succ[sb.b]) and bool(self.succ[sb.b])
        return self.block_postdominates(sa.b, sb.b)

    # ---- paths -------------------------------------------------------
    def can_reach(self, sa, sb, avoiding=()):
        """is there a normal path from site sa to site sb that avoids the given sites?"""
        avoid_by_block = defaultdict(list)
        for s in avoiding:
            avoid_by_block[s.b].append(s.i)
        if sa.b == sb.b and sa.i < sb.i:
            if not any(sa.i < i < sb.i for i in avoid_by_block.get(sa.b, [])):
                return True
        # leave sa's block
        if any(i > sa.i for i in avoid_by_block.get(sa.b, [])):
            return False
        seen = set()
        stack = list(self.succ[sa.b])
        while stack:
            b = stack.pop()
            if b in seen:
                continue
            seen.add(b)
            av = avoid_by_block.get(b, [])
            if b == sb.b:
                if not any(i < sb.i for i in av):
                    return True
                # blocked before reaching sb in this block
                if av:
                    continue
            if av:
                continue
            stack.extend(self.succ[b])
        return False

    def path_exists_to_return(self, sa, avoiding=()):
        """is there a normal path from sa to a Return that avoids `avoiding`?"""
        avoid_by_block = defaultdict(list)
        for s in avoiding:
            avoid_by_block[s.b].append(s.i)
        if any(i > sa.i for i in avoid_by_block.get(sa.b, [])):
            return False
        if self.blocks[sa.b]["term"]["t"] == "return":
            return True
        seen = set()
        stack = list(self.succ[sa.b])
        while stack:
            b = stack.pop()
            if b in seen:
                continue
            seen.add(b)
            if avoid_by_block.get(b):
                continue
            if self.blocks[b]["term"]["t"] == "return":
                return True
            stack.extend(self.succ[b])
        return False

    def escape_path(self, start=None, avoiding=(), skip_edge=None):
        """A normal path (list of blocks) from `start` (a Site; None = function entry) to a Return that passes none of the `avoiding`
        sites and takes no edge for which skip_edge(from_block, to_block) is true; None if there is no such path."""
        avoid_by_block = defaultdict(list)
        for s in avoiding:
            avoid_by_block[s.b].append(s.i)
        if start is None:
            b0, i0 = 0, -1
        else:
            b0, i0 = start.b, start.i
        if any(i > i0 for i in avoid_by_block.get(b0, [])):
            return None
        parent = {b0: None}
        stack = [b0]
        first = True
        while stack:
            x = stack.pop()
            if not first and avoid_by_block.get(x):
                continue
            first = False
            if self.blocks[x]["term"]["t"] == "return":
                path = []
                while x is not None:
                    path.append(x)
                    x = parent[x]
                return path[::-1]
            for y in self.succ[x]:
                if y in parent:
                    continue
                if skip_edge is not None and self.blocks[x]["term"]["t"] == "switch" and skip_edge(x, y):
                    continue
                parent[y] = x
                stack.append(y)
        return None

    def natural_loops(self):
        """[(header, frozenset(blocks))] for every back edge u->h (h dominates u) of the normal CFG, merged per header."""
        if getattr(self, "_nloops", None) is not None:
            return self._nloops
        _ = self.idom
        loops = {}
        for u in sorted(self.live_blocks):
            for h in self.succ[u]:
                if self.block_dominates(h, u):
                    body = loops.setdefault(h, {h})
                    stack = [u]
                    while stack:
                        x = stack.pop()
                        if x in body:
                            continue
                        body.add(x)
                        stack.extend(p for p in self.pred[x] if p in self.live_blocks)
        self._nloops = [(h, frozenset(b)) for h, b in sorted(loops.items())]
        return self._nloops

    def innermost_loop(self, site):
        """(header, blocks) of the smallest natural loop containing the site's block, or None."""
        best = None
        for h, blocks in self.natural_loops():
            if site.b in blocks and (best is None or len(blocks) < len(best[1])):
                best = (h, blocks)
        return best

    def loop_exit_edges(self, blocks):
        """[(from_block, to_block)] normal edges leaving the block set (targets that are `unreachable` ignored)."""
        out = []
        for x in sorted(blocks):
            for y in self.succ[x]:
                if y not in blocks and self.blocks[y]["term"]["t"] != "unreachable":
                    out.append((x, y))
        return out

    def in_loop(self, site):
        """is the site on a cycle of the normal CFG?"""
        b = site.b
        seen = set()
        stack = list(self.succ[b])
        while stack:
            x = stack.pop()
            if x == b:
                return True
            if x in seen:
                continue
            seen.add(x)
            stack.extend(self.succ[x])
        return False

    # ---- sites -------------------------------------------------------
    def sites(self, include_cleanup=False):
        for b, blk in enumerate(self.blocks):
            if blk["cleanup"] and not include_cleanup:
                continue
            if not include_cleanup and b not in self.live_blocks:
                continue
            for i, _ in enumerate(blk["stmts"]):
                yield Site(self, b, i)
            yield Site(self, b, TERM)

    def calls(self, pattern=None, include_cleanup=False, resolved=False):
        """call sites whose (normalised) callee matches the regex / predicate."""
        pred = _mk_pred(pattern)
        for b, blk in enumerate(self.blocks):
            if blk["cleanup"] and not include_cleanup:
                continue
            if not include_cleanup and b not in self.live_blocks:
                continue
            t = blk["term"]
            if t["t"] not in ("call", "tailcall"):
                continue
            c = t.get("callee_n") or ""
            r = t.get("resolved_n") or ""
            if pred is None or pred(c) or (resolved and r and pred(r)):
                yield Site(self, b, TERM)

    def term_sites(self, kind):
        for b in sorted(self.live_blocks):
            if self.blocks[b]["term"]["t"] == kind:
                yield Site(self, b, TERM)

    def assigns(self, include_cleanup=False):
        for s in self.sites(include_cleanup):
            if not s.is_term and s.node["s"] == "assign":
                yield s

    def aggregates(self, adt=None, variant=None, kind=None):
        for s in self.assigns():
            r = s.node["r"]
            if r["r"] != "agg":
                continue
            if kind and r.get("kind") != kind:
                continue
            if adt and norm(r.get("adt", "")) != adt and r.get("adt") != adt:
                continue
            if variant and r.get("variant") != variant:
                continue
            yield s

    # ---- reaching definitions ------------------------------------------
    def _def_local(self, site):
        """local fully (re)defined at this site, or None."""
        n = site.node
        if site.is_term:
            if n["t"] == "call" and not n["dest"]["p"]:
                return n["dest"]["l"]
            return None
        if n["s"] == "assign" and not n["p"]["p"]:
            return n["p"]["l"]
        return None

    def _compute_rd(self):
        defs = defaultdict(list)  # local -> [site]
        block_defs = []  # per block: {local: last def site}
        for b, blk in enumerate(self.blocks):
            last = {}
            for i in list(range(len(blk["stmts"]))) + [TERM]:
                s = Site(self, b, i)
                l = self._def_local(s)
                if l is not None:
                    defs[l].append(s)
                    last[l] = s
            block_defs.append(last)
        # a call's destination is defined on the edge to its target: handle by treating the
        # definition as happening at the terminator (before the successor starts). Good enough.
        IN = [dict() for _ in self.blocks]  # local -> frozenset(sites)
        OUT = [dict() for _ in self.blocks]
        work = list(self._rpo) if self._dom is not None else None
        if work is None:
            self.idom
            work = list(self._rpo)
        allsucc = [self._edges(b, unwind=True) for b in range(len(self.blocks))]
        allpred = [[] for _ in self.blocks]
        for b, ss in enumerate(allsucc):
            for s in ss:
                allpred[s].append(b)
        order = list(range(len(self.blocks)))
        changed = True
        it = 0
        while changed and it < 50:
            changed = False
            it += 1
            for b in order:
                inn = {}
                for p in allpred[b]:
                    for l, ss in OUT[p].items():
                        if l in inn:
                            inn[l] = inn[l] | ss
                        else:
                            inn[l] = ss
                out = dict(inn)
                for l, s in block_defs[b].items():
                    out[l] = frozenset([s])
                if inn != IN[b] or out != OUT[b]:
                    IN[b] = inn
                    OUT[b] = out
                    changed = True
        self._rd = (defs, IN)

    def reaching_defs(self, local, site):
        """definition sites of `local` that reach `site` (excluding `site` itself)."""
        if self._rd is None:
            self._compute_rd()
        defs, IN = self._rd
        blk = self.blocks[site.b]
        upto = len(blk["stmts"]) if site.i == TERM else site.i
        for i in range(upto - 1, -1, -1):
            s = Site(self, site.b, i)
            if self._def_local(s) == local:
                return frozenset([s])
        return IN[site.b].get(local, frozenset())

    def all_defs(self, local):
        if self._rd is None:
            self._compute_rd()
        return self._rd[0].get(local, [])

    # ---- value origins -------------------------------------------------
    def origins(self, operand, site, through_clone=True, depth=0, _seen=None):
        """Set of origin descriptors of an operand evaluated at `site`.

        Origins (hashable tuples):
          ('arg', n) | ('const', value, def_or_text) | ('call', block, callee) |
          ('agg', block, idx, adt, variant) | ('proj', origin, elem) |
          ('bin', op, oa, ob) | ('un', op, o) | ('discr', o) | ('resume', block) |
          ('upvar', name_or_idx) | ('static', path) | ('unknown', why)
        References, dereferences, casts and the TRANSPARENT callees are looked through.
        """
        if _seen is None:
            _seen = set()
        k = operand.get("k")
        if k == "const":
            if operand.get("static"):
                return frozenset([("static", norm(operand["static"]))])
            if operand.get("fn"):
                return frozenset([("fn", norm(operand["fn"]))])
            v = operand.get("v")
            d = operand.get("def")
            return frozenset([("const", v, norm(d) if d else operand.get("text"))])
        if k in ("copy", "move"):
            return self.place_origins(operand["pl"], site, through_clone, depth, _seen)
        return frozenset([("unknown", "operand")])

    def place_origins(self, pl, site, through_clone=True, depth=0, _seen=None):
        if _seen is None:
            _seen = set()
        local = pl["l"]
        proj = [e for e in pl["p"] if e != "*"]
        base = self._local_origins(local, site, through_clone, depth, _seen)
        if not proj:
            return base
        out = set()
        for o in base:
            out.add(self._apply_proj(o, proj, through_clone, depth, _seen))
        return frozenset(out)

    def _apply_proj(self, o, proj, through_clone, depth, _seen):
        for e in proj:
            # resolve field of a known aggregate
            if o[0] == "agg" and e[0] == "f":
                s = Site(self, o[1], o[2])
                r = s.node["r"]
                idx = e[1]
                if r.get("kind") in ("adt", "tuple", "closure", "coroutine", "array") and idx < len(r["ops"]):
                    sub = self.origins(r["ops"][idx], s, through_clone, depth + 1, _seen)
                    if len(sub) == 1:
                        o = next(iter(sub))
                        continue
                    o = ("multi", tuple(sorted(sub, key=repr)))
                    continue
            if e[0] == "f":
                o = ("proj", o, ("f", e[2]))
            elif e[0] == "d":
                o = ("proj", o, ("d", e[1]))
            elif e[0] == "i":
                o = ("proj", o, ("i", e[1]))
            elif e[0] == "ci":
                o = ("proj", o, ("i",))
            else:
                o = ("proj", o, ("o",))
        return o

    def _local_origins(self, local, site, through_clone, depth, _seen):
        if depth > 40:
            return frozenset([("unknown", "depth")])
        defs = self.reaching_defs(local, site)
        out = set()
        is_arg = 1 <= local <= self.argc
        if not defs:
            if is_arg:
                if self.kind in ("Closure", "coroutine") and local == 1:
                    return frozenset([("env",)])
                return frozenset([("arg", local)])
            return frozenset([("unknown", "nodef:%d" % local)])
        if is_arg:
            # an argument that may be reassigned: both
            first = self.reaching_defs(local, Site(self, 0, 0))
            if not first:
                pass
        for d in defs:
            key = (local, d.b, d.i)
            if key in _seen:
                out.add(("cycle", local))
                continue
            _seen2 = _seen | {key}
            n = d.node
            if d.is_term:
                # call
                c = n.get("callee_n") or ""
                if c in TRANSPARENT and n["args"]:
                    out |= self.origins(n["args"][TRANSPARENT[c]], d, through_clone, depth + 1, _seen2)
                elif through_clone and c in CLONES and n["args"]:
                    out |= self.origins(n["args"][0], d, through_clone, depth + 1, _seen2)
                else:
                    out.add(("call", d.b, c or "<indirect>"))
                continue
            r = n["r"]
            rk = r["r"]
            if rk == "use":
                out |= self.origins(r["o"], d, through_clone, depth + 1, _seen2)
            elif rk in ("ref", "rawptr", "cfd"):
                out |= self.place_origins(r["pl"], d, through_clone, depth + 1, _seen2)
            elif rk == "cast":
                out |= self.origins(r["o"], d, through_clone, depth + 1, _seen2)
            elif rk == "agg":
                out.add(("agg", d.b, d.i, norm(r.get("adt") or r.get("def") or r.get("kind")), r.get("variant")))
            elif rk == "bin":
                oa = self.origins(r["a"], d, through_clone, depth + 1, _seen2)
                ob = self.origins(r["b"], d, through_clone, depth + 1, _seen2)
                out.add(("bin", r["op"], _one(oa), _one(ob)))
            elif rk == "un":
                oa = self.origins(r["o"], d, through_clone, depth + 1, _seen2)
                out.add(("un", r["op"], _one(oa)))
            elif rk == "discr":
                oa = self.place_origins(r["pl"], d, through_clone, depth + 1, _seen2)
                out.add(("discr", _one(oa)))
            elif rk == "tlref":
                out.add(("static", norm(r["def"])))
            else:
                out.add(("unknown", rk))
        return frozenset(out)

    # ---- guards --------------------------------------------------------
    def switch_edges_dominating(self, site):
        """[(switch_block, target_block)] such that every path from entry to `site`
        takes the edge switch_block -> target_block."""
        key = ("sed", site.b)
        if key in self._reach_cache:
            return self._reach_cache[key]
        res = []
        for b in sorted(self.live_blocks):
            t = self.blocks[b]["term"]
            if t["t"] != "switch":
                continue
            succs = self.succ[b]
            if len(succs) < 2:
                continue
            if not self.block_dominates(b, site.b) or b == site.b:
                continue
            for s in succs:
                r = self.reachable(0, removed_edge=(b, s))
                if site.b not in r:
                    res.append((b, s))
        self._reach_cache[key] = res
        return res

    def edge_values(self, b, target):
        """values of the switch discriminant on edge b->target: (set(values), is_otherwise, all_values)."""
        t = self.blocks[b]["term"]
        vals = set(v for v, tb in t["targets"] if tb == target)
        allv = [v for v, _ in t["targets"]]
        return vals, (t["otherwise"] == target), allv

    def conditions(self, site):
        """Guard conditions that hold at `site`: list of Cond."""
        out = []
        for (b, tgt) in self.switch_edges_dominating(site):
            out.append(Cond(self, b, tgt))
        return out

    def must_hold(self, gen_sites, kill_pred, site):
        """Forward must-dataflow: on every path from entry to `site`, some gen site occurs and
        no kill site (kill_pred(Site) -> bool) occurs after the last gen."""
        gens = set((s.b, s.i) for s in gen_sites)
        nb = len(self.blocks)
        # per block transfer
        def transfer(b, state, upto=None):
            blk = self.blocks[b]
            idxs = list(range(len(blk["stmts"]))) + [TERM]
            for i in idxs:
                if upto is not None and i >= upto:
                    break
                s = Site(self, b, i)
                if kill_pred(s):
                    state = False
                if (b, i) in gens:
                    state = True
            return state

        live = self.live_blocks
        self.idom  # makes sure the reverse post-order exists
        IN = {b: True for b in live}
        IN[0] = False
        OUT = {b: True for b in live}
        changed = True
        while changed:
            changed = False
            for b in self._rpo:
                if b != 0:
                    ps = [p for p in self.pred[b] if p in live]
                    inn = all(OUT[p] for p in ps) if ps else False
                else:
                    inn = False
                out = transfer(b, inn)
                if inn != IN[b] or out != OUT[b]:
                    IN[b] = inn
                    OUT[b] = out
                    changed = True
        return transfer(site.b, IN[site.b], upto=site.i)


def _one(os_):
    if len(os_) == 1:
        return next(iter(os_))
    return ("multi", tuple(sorted(os_, key=repr)))


def _mk_pred(pattern):
    if pattern is None:
        return None
    if callable(pattern):
        return pattern
    if isinstance(pattern, (set, frozenset, list, tuple)):
        st = set(pattern)
        return lambda c: c in st
    rx = re.compile(pattern)
    return lambda c: rx.search(c) is not None


CMP_CALLS = {
    "std::cmp::PartialOrd::lt": "<",
    "std::cmp::PartialOrd::le": "<=",
    "std::cmp::PartialOrd::gt": ">",
    "std::cmp::PartialOrd::ge": ">=",
    "std::cmp::PartialEq::eq": "==",
    "std::cmp::PartialEq::ne": "!=",
}
BINOPS = {"Lt": "<", "Le": "<=", "Gt": ">", "Ge": ">=", "Eq": "==", "Ne": "!="}
NEG = {"<": ">=", "<=": ">", ">": "<=", ">=": "<", "==": "!=", "!=": "=="}
SWAP = {"<": ">", "<=": ">=", ">": "<", ">=": "<=", "==": "==", "!=": "!="}

STD_VARIANTS = {
    "std::option::Option": {0: "None", 1: "Some"},
    "std::result::Result": {0: "Ok", 1: "Err"},
    "std::ops::ControlFlow": {0: "Continue", 1: "Break"},
    "std::task::Poll": {0: "Ready", 1: "Pending"},
}


class Cond:
    """The condition attached to a switch edge, interpreted.

    kind == 'cmp':   (op, A, B) with A, B origin sets, `op` already adjusted for polarity
    kind == 'call':  (callee, truth, site)  e.g. is_zero / is_empty / is_cancelled ...
    kind == 'variant': (origin, set(names) , negated)
    kind == 'bool':  (origin, truth)
    kind == 'int':   (origin, values, negated)
    """

    def __init__(self, body, b, tgt):
        self.body = body
        self.b = b
        self.tgt = tgt
        self.kind = "unknown"
        self.data = None
        self.site = Site(body, b, TERM)
        self._interpret()

    def __repr__(self):
        return "Cond(%s %s @bb%d->bb%d)" % (self.kind, self.data, self.b, self.tgt)

    def _interpret(self):
        body = self.body
        t = body.blocks[self.b]["term"]
        vals, is_other, allv = body.edge_values(self.b, self.tgt)
        d = t["d"]
        dty = t.get("dty")
        site = Site(body, self.b, TERM)
        if dty == "bool":
            # truth of the boolean on this edge
            if is_other and not vals:
                truth = not (0 in allv) if allv == [0] else (1 not in allv)
                if allv == [0]:
                    truth = True
                elif allv == [1]:
                    truth = False
            else:
                truth = 1 in vals
            self._interp_bool(d, site, truth)
            return
        # integer / discriminant
        defs = None
        if d["k"] in ("copy", "move") and not d["pl"]["p"]:
            defs = body.reaching_defs(d["pl"]["l"], site)
        if defs and len(defs) == 1:
            ds = next(iter(defs))
            if not ds.is_term and ds.node["r"]["r"] == "discr":
                r = ds.node["r"]
                names = {}
                for nm, v in r.get("variants", []):
                    names[v] = nm
                if not names:
                    names = STD_VARIANTS.get(norm(r.get("head", "")), {})
                org = body.place_origins(r["pl"], ds)
                if is_other and not vals:
                    excluded = set(names.get(v, v) for v in allv)
                    allnames = set(names.values())
                    if allnames:
                        self.kind = "variant"
                        self.data = (org, allnames - excluded, False, r.get("head"))
                    else:
                        self.kind = "variant"
                        self.data = (org, excluded, True, r.get("head"))
                else:
                    self.kind = "variant"
                    self.data = (org, set(names.get(v, v) for v in vals), False, r.get("head"))
                return
        org = body.origins(d, site)
        if is_other and not vals:
            self.kind = "int"
            self.data = (org, set(allv), True)
        else:
            self.kind = "int"
            self.data = (org, set(vals), False)

    def _interp_bool(self, operand, site, truth, depth=0):
        body = self.body
        if depth > 10 or operand["k"] not in ("copy", "move") or operand["pl"]["p"]:
            self.kind = "bool"
            self.data = (body.origins(operand, site), truth)
            return
        defs = body.reaching_defs(operand["pl"]["l"], site)
        if len(defs) != 1:
            self.kind = "bool"
            self.data = (body.origins(operand, site), truth)
            return
        ds = next(iter(defs))
        n = ds.node
        if ds.is_term:
            c = n.get("callee_n") or ""
            if c in CMP_CALLS and len(n["args"]) == 2:
                op = CMP_CALLS[c]
                if not truth:
                    op = NEG[op]
                self.kind = "cmp"
                self.data = (op, body.origins(n["args"][0], ds), body.origins(n["args"][1], ds), ds)
                return
            if c == "std::ops::Not::not" and n["args"]:
                return self._interp_bool(n["args"][0], ds, not truth, depth + 1)
            self.kind = "call"
            self.data = (c, truth, ds)
            return
        r = n["r"]
        if r["r"] == "use":
            return self._interp_bool(r["o"], ds, truth, depth + 1)
        if r["r"] == "un" and r["op"] == "Not":
            return self._interp_bool(r["o"], ds, not truth, depth + 1)
        if r["r"] == "bin" and r["op"] in BINOPS:
            op = BINOPS[r["op"]]
            if not truth:
                op = NEG[op]
            self.kind = "cmp"
            self.data = (op, body.origins(r["a"], ds), body.origins(r["b"], ds), ds)
            return
        self.kind = "bool"
        self.data = (body.origins(operand, site), truth)


# ---------------------------------------------------------------------------

class Program:
    def __init__(self, recs, info=None):
        self.info = info or {}
        self.bodies = {}
        self.by_path = {}
        self.adts = {}
        self.impls = []
        self.items = {}
        for r in recs:
            k = r["k"]
            if k == "body":
                b = Body(r, self)
                # normalised names can collide (e.g. two impls of one trait for different params);
                # keep all under by_name list
                self.bodies.setdefault(b.name, []).append(b)
                self.by_path[b.path] = b
            elif k == "adt":
                self.adts[norm(r["path"])] = r
            elif k == "impl":
                self.impls.append(r)
            elif k == "item":
                self.items[norm(r["path"])] = r
        self._cg = None

    def all_bodies(self):
        for bs in self.bodies.values():
            for b in bs:
                yield b

    def body(self, name):
        """exactly one body with this normalised name, else None."""
        bs = self.bodies.get(name)
        if bs and len(bs) == 1:
            return bs[0]
        return None

    def find(self, pattern):
        pred = _mk_pred(pattern)
        return [b for b in self.all_bodies() if pred(b.name)]

    def children(self, body):
        """closures / coroutines / nested fns lexically inside `body`."""
        pre = body.name + "::"
        return [b for b in self.all_bodies() if b.name.startswith(pre)]

    def family(self, body):
        return [body] + self.children(body)

    # ---- call graph ----------------------------------------------------
    def callgraph(self):
        if self._cg is not None:
            return self._cg
        cg = defaultdict(set)
        for b in self.all_bodies():
            for blk in b.blocks:
                t = blk["term"]
                if t["t"] in ("call", "tailcall"):
                    for nm in (t.get("resolved_n"), t.get("callee_n")):
                        if nm and nm in self.bodies:
                            cg[b.name].add(nm)
                    for g in t.get("gdefs", []):
                        g = norm(g)
                        if g in self.bodies:
                            cg[b.name].add(g)
                for st in blk["stmts"]:
                    if st["s"] == "assign" and st["r"]["r"] == "agg" and st["r"].get("def"):
                        d = norm(st["r"]["def"])
                        if d in self.bodies:
                            cg[b.name].add(d)
                    if st["s"] == "assign":
                        # fn items used as values
                        for op in _rvalue_operands(st["r"]):
                            if op.get("fn"):
                                f = norm(op["fn"])
                                if f in self.bodies:
                                    cg[b.name].add(f)
        self._cg = cg
        return cg

    def reach(self, roots, stop=None):
        """names of crate-local bodies reachable from roots (inclusive)."""
        cg = self.callgraph()
        seen = set()
        stack = list(roots)
        while stack:
            n = stack.pop()
            if n in seen:
                continue
            seen.add(n)
            if stop and stop(n) and n not in roots:
                continue
            stack.extend(cg.get(n, ()))
        return seen

    def callers_of(self, pattern, resolved=True):
        """[(body, site)] for every call site whose callee matches."""
        out = []
        for b in self.all_bodies():
            for s in b.calls(pattern, resolved=resolved):
                out.append((b, s))
        return out

    # ---- closure captures -------------------------------------------------
    def creation_sites(self, closure_body):
        """aggregate sites (in other bodies) that create this closure / coroutine."""
        out = []
        name = closure_body.name
        parent = name.rsplit("::", 1)[0] if "::" in name else None
        cands = self.bodies.get(parent, []) if parent else []
        for b in cands:
            for s in b.assigns(include_cleanup=False):
                r = s.node["r"]
                if r["r"] == "agg" and r.get("def") and norm(r["def"]) == name:
                    out.append(s)
        return out

    def capture_origins(self, closure_body, idx):
        """origins (in the creating body) of captured upvar number idx; env of the creator resolved too."""
        out = set()
        for s in self.creation_sites(closure_body):
            ops = s.node["r"]["ops"]
            if idx < len(ops):
                for o in s.body.origins(ops[idx], s):
                    out.add(self.resolve_env(s.body, o))
        return frozenset(out)

    def resolve_env(self, body, o, depth=0):
        """rewrite ('proj', ('env',), ('f', i)) inside a closure origin to the creator's origin."""
        if depth > 8 or not isinstance(o, tuple):
            return o
        if o[0] == "proj":
            base = o[1]
            if base == ("env",) and o[2][0] == "f" and str(o[2][1]).isdigit() and body.kind in ("Closure", "coroutine"):
                caps = self.capture_origins(body, int(o[2][1]))
                if len(caps) == 1:
                    return ("captured", next(iter(caps)))
                if caps:
                    return ("captured", ("multi", tuple(sorted(caps, key=repr))))
                return o
            nb = self.resolve_env(body, base, depth + 1)
            if nb is not base:
                # ("captured", x) is transparent for further projections
                if isinstance(nb, tuple) and nb and nb[0] == "captured":
                    return ("proj", nb[1], o[2])
                return ("proj", nb, o[2])
            return o
        return o

    def resolved_origins(self, body, operand_or_place, site, place=False):
        os_ = body.place_origins(operand_or_place, site) if place else body.origins(operand_or_place, site)
        out = set()
        for o in os_:
            r = self.resolve_env(body, o)
            if isinstance(r, tuple) and r and r[0] == "captured":
                r = r[1]
            out.add(r)
        return frozenset(out)

    def impls_of(self, trait_pattern):
        pred = _mk_pred(trait_pattern)
        return [i for i in self.impls if i.get("trait") and pred(norm(i["trait"]))]

    def adt_impls(self, adt_name, trait_last=None):
        out = []
        for i in self.impls:
            if norm(i["self_head"]) == adt_name:
                if trait_last is None or (i.get("trait") and last_seg(norm(i["trait"])) == trait_last):
                    out.append(i)
        return out


def _rvalue_operands(r):
    k = r["r"]
    if k in ("use", "cast", "un", "repeat"):
        return [r["o"]]
    if k == "bin":
        return [r["a"], r["b"]]
    if k == "agg":
        return r["ops"]
    return []


def rvalue_operands(r):
    return _rvalue_operands(r)


def origin_calls(o):
    """all ('call', block, callee) nodes inside an origin tree."""
    out = []
    if isinstance(o, (tuple, frozenset, set, list)):
        if isinstance(o, tuple) and o and o[0] == "call":
            out.append(o)
        for x in o:
            if isinstance(x, (tuple, frozenset, set, list)):
                out.extend(origin_calls(x))
    return out


def origin_contains(o, pred):
    if isinstance(o, tuple) and pred(o):
        return True
    if isinstance(o, (tuple, frozenset, set, list)):
        return any(origin_contains(x, pred) for x in o if isinstance(x, (tuple, frozenset, set, list)))
    return False


def origin_proj_names(o):
    """field / variant names applied on the way from the root of a ('proj', ...) chain (outermost last)."""
    names = []
    while isinstance(o, tuple) and o and o[0] == "proj":
        names.append(o[2])
        o = o[1]
    names.reverse()
    return o, names
