"""K6: enumeration of atomic / fence sites with their memory orderings."""
from .core import Site, TERM, norm, origin_proj_names, origin_calls

ATOMIC_RX = r"^std::sync::atomic::(Atomic::\w+|fence|compiler_fence)$"
RANK = {"Relaxed": 0, "Acquire": 1, "Release": 1, "AcqRel": 2, "SeqCst": 3}


def at_least(actual, floor):
    """is `actual` at least as strong as `floor` in Relaxed < {Acquire, Release} < AcqRel < SeqCst?"""
    if floor in (None, "-", "Relaxed"):
        return True
    if actual == floor:
        return True
    if actual == "SeqCst":
        return True
    if actual == "AcqRel" and floor in ("Acquire", "Release"):
        return True
    return False


def ordering_of(body, operand, site):
    """name of the Ordering variant an operand evaluates to, or None / 'multi'."""
    os_ = body.origins(operand, site)
    names = set()
    for o in os_:
        if o[0] == "agg" and o[3] == "std::sync::atomic::Ordering":
            names.add(o[4])
        elif o[0] == "const" and o[2] and "Ordering::" in str(o[2]):
            names.add(str(o[2]).rsplit("::", 1)[-1])
        else:
            names.add("?")
    if len(names) == 1:
        return next(iter(names))
    return "multi:" + ",".join(sorted(names))


def receiver_field(body, site):
    """last named field on the path to the atomic receiver (e.g. 'stamp', 'state'), '' for fences."""
    n = site.node
    if not n["args"]:
        return ""
    if n["callee_n"].endswith("fence"):
        return ""
    os_ = body.prog.resolved_origins(body, n["args"][0], site) if body.prog is not None else body.origins(n["args"][0], site)
    fields = set()
    for o in os_:
        rt, names = origin_proj_names(o)
        f = [x[1] for x in names if x[0] == "f" and not str(x[1]).isdigit()]
        if f:
            fields.add(f[-1])
        else:
            # e.g. a local binding obtained from a call / static
            calls = origin_calls(o)
            if o[0] == "static":
                fields.add(o[1].rsplit("::", 1)[-1])
            elif calls:
                fields.add("<" + calls[0][2].rsplit("::", 1)[-1] + ">")
            else:
                fields.add("?")
    return "|".join(sorted(fields))


def atomic_sites(prog, body_pred=None):
    """[(body, site, op, field, [orderings])] in deterministic order (body name, RPO position)."""
    out = []
    for b in sorted(prog.all_bodies(), key=lambda x: x.name):
        if body_pred and not body_pred(b):
            continue
        sites = list(b.calls(ATOMIC_RX))
        sites.sort(key=lambda s: (b.rpo_index.get(s.b, 10**6), s.b))
        for s in sites:
            n = s.node
            op = n["callee_n"].rsplit("::", 1)[-1]
            if op in ("new", "get_mut", "into_inner", "from_mut", "as_ptr", "from_ptr"):
                continue
            tys = n.get("argtys", [])
            ords = [ordering_of(b, a, s) for a, t in zip(n["args"], tys) if t == "std::sync::atomic::Ordering"]
            out.append((b, s, op, receiver_field(b, s), ords))
    return out


def keyed_sites(prog, body_pred=None):
    """{(fn, field, op, idx): (site, ords)} with idx numbering equal (fn, field, op) triples in CFG order."""
    res = {}
    counts = {}
    for b, s, op, field, ords in atomic_sites(prog, body_pred):
        k = (b.name, field, op)
        i = counts.get(k, 0)
        counts[k] = i + 1
        res[(b.name, field, op, i)] = (s, ords)
    return res
