"""Developer aid: pretty-print bodies of the fact base.  python3 -m nx.dump <regex> [config]"""
import sys

from . import core, extract


def op_s(o):
    k = o.get("k")
    if k == "const":
        if o.get("fn"):
            return "fn:" + core.norm(o["fn"])
        if o.get("static"):
            return "&static:" + o["static"]
        if o.get("def"):
            return "const:%s=%s" % (core.norm(o["def"]), o.get("v"))
        if "v" in o:
            return "%s" % (o["v"],)
        return "const(%s)" % o.get("text", "")[:40]
    if k in ("copy", "move"):
        return ("mv " if k == "move" else "") + pl_s(o["pl"])
    return str(o)


def pl_s(p):
    s = "_%d" % p["l"]
    for e in p["p"]:
        if e == "*":
            s = "(*%s)" % s
        elif e[0] == "f":
            s += "." + str(e[2])
        elif e[0] == "d":
            s = "(%s as %s)" % (s, e[1])
        elif e[0] == "i":
            s += "[_%d]" % e[1]
        else:
            s += "[?]"
    return s


def rv_s(r):
    k = r["r"]
    if k == "use":
        return op_s(r["o"])
    if k == "ref":
        return ("&mut " if r["mut"] else "&") + pl_s(r["pl"])
    if k == "rawptr":
        return "&raw " + pl_s(r["pl"])
    if k == "cast":
        return "%s as [%s]" % (op_s(r["o"]), r["kind"][:30])
    if k == "bin":
        return "%s(%s, %s)" % (r["op"], op_s(r["a"]), op_s(r["b"]))
    if k == "un":
        return "%s(%s)" % (r["op"], op_s(r["o"]))
    if k == "discr":
        return "discr(%s)" % pl_s(r["pl"])
    if k == "cfd":
        return "deref_copy " + pl_s(r["pl"])
    if k == "agg":
        nm = r.get("adt") or r.get("def") or r.get("kind")
        if r.get("variant"):
            nm = "%s::%s" % (core.norm(nm), r["variant"])
        return "%s{%s}" % (nm, ", ".join(op_s(o) for o in r["ops"]))
    return str(r)[:80]


def dump(b, out=sys.stdout):
    print("== %s [%s] %s argc=%d" % (b.name, b.kind, b.loc(), b.argc), file=out)
    for l, names in sorted(b.debug_names.items()):
        for nm, p in names:
            print("   debug %s = %s" % (nm, pl_s({"l": l, "p": p})), file=out)
    for i, blk in enumerate(b.blocks):
        print(" bb%d%s:" % (i, " (cleanup)" if blk["cleanup"] else ""), file=out)
        for st in blk["stmts"]:
            if st["s"] == "assign":
                print("    %s = %s   // L%s" % (pl_s(st["p"]), rv_s(st["r"]), st["line"]), file=out)
            elif st["s"] == "dead":
                print("    dead _%d" % st["l"], file=out)
        t = blk["term"]
        k = t["t"]
        if k == "call":
            print(
                "    %s = %s(%s) -> bb%s unwind %s   // L%s%s"
                % (
                    pl_s(t["dest"]),
                    t.get("callee_n") or op_s(t["f"]),
                    ", ".join(op_s(a) for a in t["args"]),
                    t["to"],
                    t["unwind"],
                    t["line"],
                    (" res=" + t["resolved_n"]) if t.get("resolved_n") and t.get("resolved_n") != t.get("callee_n") else "",
                ),
                file=out,
            )
        elif k == "switch":
            print("    switch %s %s else bb%s" % (op_s(t["d"]), t["targets"], t["otherwise"]), file=out)
        elif k == "drop":
            print("    drop %s [%s] -> bb%s unwind %s" % (pl_s(t["pl"]), t["ty"][:60], t["to"], t["unwind"]), file=out)
        elif k == "yield":
            print("    yield -> bb%s drop %s" % (t["to"], t["drop"]), file=out)
        else:
            print("    %s %s" % (k, {x: t[x] for x in t if x in ("to", "imag", "unwind")}), file=out)


if __name__ == "__main__":
    cfg = sys.argv[2] if len(sys.argv) > 2 else "default"
    recs, info = extract.extract(cfg)
    P = core.Program(recs, info)
    for b in P.find(sys.argv[1]):
        dump(b)
