"""E3: compile-fail witnesses (thorough tier). Implemented in /verif/witness; see run_witnesses."""
import os
import shutil
import subprocess
import time

VERIF = os.path.dirname(os.path.dirname(os.path.abspath(__file__)))


def run_witnesses(pid, obligations, repo, filters=None):
    """Runs `cargo +nightly test --doc` on the witness crate (path dependency on the repo under analysis).
    Each doctest is a compile_fail,E0xxx snippet or its compiling twin; nothing of the repo is executed beyond
    rustdoc compiling (and, for the twins, running an empty main)."""
    from . import report
    wdir = os.path.join(VERIF, "witness")
    if not os.path.isdir(wdir):
        return {"witnesses": "not built"}
    work = os.path.join(VERIF, "build", "witness-" + pid)
    shutil.rmtree(work, ignore_errors=True)
    shutil.copytree(wdir, work)
    ct = open(os.path.join(work, "Cargo.toml")).read().replace("/repo/nexosim", os.path.join(os.path.abspath(repo), "nexosim"))
    open(os.path.join(work, "Cargo.toml"), "w").write(ct)
    shutil.copy(os.path.join(repo, "Cargo.lock"), os.path.join(work, "Cargo.lock"))
    env = dict(os.environ)
    env["CARGO_NET_OFFLINE"] = "true"
    env["CARGO_TARGET_DIR"] = os.path.join(VERIF, "build", "target-witness")
    t0 = time.time()
    filters = filters or [pid.lower()]
    p = subprocess.run(["cargo", "+nightly", "test", "--doc", "--offline", "--"] + list(filters), cwd=work, env=env,
                       stdout=subprocess.PIPE, stderr=subprocess.STDOUT, text=True)
    out = p.stdout
    passed = [l for l in out.splitlines() if l.startswith("test ") and l.rstrip().endswith("ok")]
    failed = [l for l in out.splitlines() if l.startswith("test ") and "FAILED" in l]
    ctx = report.Ctx(pid, None, "witness", obligations)
    ctx.rule = pid + ".w"
    ctx.clause = "compile-fail witnesses"
    if p.returncode != 0 and not failed:
        ctx.ob("witness-harness", False, "witness crate failed to build/run: " + out[-600:])
    for l in passed:
        ctx.ob("witness|" + l.split(" - ")[1].split(" ")[0], True, "type-level witness holds (%s)" % ("compile_fail with the expected error code" if "compile fail" in l else "compiling twin"), [l.strip()])
    for l in failed:
        ctx.ob("witness|" + l.split(" - ")[1].split(" ")[0], False, "type-level witness violated: " + l.strip(), [l.strip()])
    if len(passed) + len(failed) < 2 * len(filters):
        ctx.ob("witness-floor", False, "no witness ran for " + pid)
    shutil.rmtree(work, ignore_errors=True)
    return {"witnesses_run": len(passed) + len(failed), "witness_s": round(time.time() - t0, 1)}
