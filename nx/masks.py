"""Constant folding of origin trees and recognition of `(X & MASK) <op> VALUE` guards."""
from .core import origin_proj_names

M64 = (1 << 64) - 1


def const_eval(o):
    """integer value of a constant-only origin tree, else None."""
    if not isinstance(o, tuple) or not o:
        return None
    k = o[0]
    if k == "const":
        v = o[1]
        if isinstance(v, bool):
            return int(v)
        return v if isinstance(v, int) else None
    if k == "proj":
        # (x op y).0 of a checked arithmetic op
        if o[2] == ("f", "0"):
            return const_eval(o[1])
        return None
    if k == "bin":
        a, b = const_eval(o[2]), const_eval(o[3])
        if a is None or b is None:
            return None
        op = o[1].replace("WithOverflow", "").replace("Unchecked", "")
        if op == "BitOr":
            return a | b
        if op == "BitAnd":
            return a & b
        if op == "BitXor":
            return a ^ b
        if op == "Add":
            return (a + b) & M64
        if op == "Sub":
            return (a - b) & M64
        if op == "Mul":
            return (a * b) & M64
        if op == "Shl":
            return (a << b) & M64
        if op == "Shr":
            return a >> b
        if op == "Div" and b:
            return a // b
        return None
    if k == "un":
        a = const_eval(o[2])
        if a is None:
            return None
        if o[1] == "Not":
            return (~a) & M64
        return None
    return None


def const_eval_set(os_):
    vals = set(const_eval(o) for o in os_)
    if len(vals) == 1:
        return next(iter(vals))
    return None


def masked(o):
    """if o is `X & MASK` (either operand order) with constant MASK: (X, mask) else None."""
    if isinstance(o, tuple) and o and o[0] == "bin" and o[1] == "BitAnd":
        a, b = o[2], o[3]
        mb = const_eval(b)
        if mb is not None and const_eval(a) is None:
            return a, mb
        ma = const_eval(a)
        if ma is not None and const_eval(b) is None:
            return b, ma
    return None


def mask_cmp(cond):
    """Cond -> (op, X origin, mask, value) for guards of the form (X & mask) op value; else None."""
    if cond.kind != "cmp":
        return None
    op, A, B, _ = cond.data
    from .core import SWAP
    for (o, x, y) in ((op, A, B), (SWAP[op], B, A)):
        if len(x) != 1:
            continue
        m = masked(next(iter(x)))
        v = const_eval_set(y)
        if m is not None and v is not None:
            return o, m[0], m[1], v
    return None
