"""Run the nxfacts driver (engine E1) over /repo's *current* working tree.

Nothing of the repository is executed: `cargo +nightly check` type-checks the
library with the driver injected as RUSTC_WORKSPACE_WRAPPER, and the driver
serialises the MIR.  The fact file is regenerated on every call (the crate's
cargo fingerprint is removed first, and a fresh nonce must come back in the
`meta` record, otherwise the run fails closed).
"""
import fcntl
import glob
import json
import os
import shutil
import subprocess
import sys
import time
import uuid

VERIF = os.path.dirname(os.path.dirname(os.path.abspath(__file__)))
REPO = os.environ.get("NX_REPO", "/repo")
BUILD = os.path.join(VERIF, "build")
DRIVER_DIR = os.path.join(VERIF, "driver")
DRIVER_BIN = os.path.join(BUILD, "driver", "release", "nxfacts")

CONFIGS = {
    "default": [],
    "tracing": ["tracing"],
    "full": ["grpc", "tracing", "dev-hooks"],
}


class ExtractError(Exception):
    pass


def _env():
    env = dict(os.environ)
    env["CARGO_NET_OFFLINE"] = "true"
    return env


def sysroot():
    return subprocess.check_output(
        ["rustc", "+nightly", "--print", "sysroot"], env=_env(), text=True
    ).strip()


def build_driver(force=False):
    """Build the driver if needed (source newer than the binary)."""
    os.makedirs(BUILD, exist_ok=True)
    src = os.path.join(DRIVER_DIR, "src", "main.rs")
    if (
        not force
        and os.path.exists(DRIVER_BIN)
        and os.path.getmtime(DRIVER_BIN) >= os.path.getmtime(src)
    ):
        return
    with open(os.path.join(BUILD, ".driver.lock"), "w") as lk:
        fcntl.flock(lk, fcntl.LOCK_EX)
        if (
            not force
            and os.path.exists(DRIVER_BIN)
            and os.path.getmtime(DRIVER_BIN) >= os.path.getmtime(src)
        ):
            return
        env = _env()
        env["CARGO_TARGET_DIR"] = os.path.join(BUILD, "driver")
        p = subprocess.run(
            ["cargo", "+nightly", "build", "--release", "--offline"],
            cwd=DRIVER_DIR,
            env=env,
            stdout=subprocess.PIPE,
            stderr=subprocess.STDOUT,
            text=True,
        )
        if p.returncode != 0 or not os.path.exists(DRIVER_BIN):
            raise ExtractError("driver build failed:\n" + p.stdout[-4000:])


def extract(config="default", repo=None, keep=False):
    """Returns (list of fact records, info dict). Raises ExtractError."""
    repo = repo or REPO
    build_driver()
    feats = CONFIGS[config]
    os.makedirs(BUILD, exist_ok=True)
    # one target dir per (repo path, config): scratch copies do not disturb /repo's cache
    # (a stable digest: Python's str hash is salted per process and would create a new 50 MB target directory for every run)
    import hashlib
    tag = config if os.path.abspath(repo) == "/repo" else config + "-x" + hashlib.md5(os.path.abspath(repo).encode()).hexdigest()[:8]
    target = os.path.join(BUILD, "target-" + tag)
    nonce = uuid.uuid4().hex
    out = os.path.join(BUILD, "facts-%s-%s.jsonl" % (tag, nonce[:8]))
    t0 = time.time()
    with open(os.path.join(BUILD, ".extract-%s.lock" % tag), "w") as lk:
        fcntl.flock(lk, fcntl.LOCK_EX)
        for fp in glob.glob(os.path.join(target, "debug", ".fingerprint", "nexosim-*")):
            shutil.rmtree(fp, ignore_errors=True)
        env = _env()
        env.update(
            {
                "NXFACTS_OUT": out,
                "NXFACTS_NONCE": nonce,
                "NXFACTS_CRATE": "nexosim",
                "CARGO_INCREMENTAL": "0",
                "LD_LIBRARY_PATH": os.path.join(sysroot(), "lib"),
                "RUSTFLAGS": "-Zmir-opt-level=0 -Awarnings",
                "RUSTC_WORKSPACE_WRAPPER": DRIVER_BIN,
                "CARGO_TARGET_DIR": target,
            }
        )
        env.pop("RUSTC_WRAPPER", None)
        cmd = ["cargo", "+nightly", "check", "--offline", "-p", "nexosim", "--lib"]
        if feats:
            cmd += ["--features", ",".join(feats)]
        p = subprocess.run(
            cmd, cwd=repo, env=env, stdout=subprocess.PIPE, stderr=subprocess.STDOUT, text=True
        )
    if p.returncode != 0:
        raise ExtractError(
            "cargo check failed for config %s (the tree does not compile?):\n%s"
            % (config, p.stdout[-6000:])
        )
    if not os.path.exists(out):
        raise ExtractError("fact file was not produced for config %s (stale cargo cache?)" % config)
    recs = []
    with open(out) as f:
        for line in f:
            recs.append(json.loads(line))
    if not keep:
        os.remove(out)
    if not recs or recs[0].get("k") != "meta" or recs[0].get("nonce") != nonce:
        raise ExtractError("stale or foreign fact file (nonce mismatch)")
    if recs[-1].get("k") != "end":
        raise ExtractError("truncated fact file")
    info = dict(recs[0])
    info["config"] = config
    info["extract_s"] = round(time.time() - t0, 2)
    info["repo"] = repo
    return recs, info


if __name__ == "__main__":
    recs, info = extract(sys.argv[1] if len(sys.argv) > 1 else "default")
    print(info, len(recs))
