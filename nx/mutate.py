"""Thorough tier: fact-level mutation closure (DESIGN.md Appendix B).

No source is patched and nothing is executed: the *fact base* of the default configuration is mutated, one site at a
time, and the property's rules are re-evaluated.  Operators, applied at every site that an obligation of the property
referenced (complete enumeration):
  weaken   lower one memory-ordering argument of a floor-table site by one lattice step
  delete   replace a referenced call by a jump to its normal successor
  flip     exchange the two successors of a referenced two-way branch
A mutant is *killed* when at least one obligation fails (a crashing rule counts: rules fail closed).  Survivors are
reported in the evidence; they point at sites a rule mentions but does not depend on (or at redundant protection).
"""
import copy
import time

from . import core, report, atomics
from .ordering_table import entries_for

WEAKER = {"SeqCst": ["AcqRel"], "AcqRel": ["Acquire", "Release"], "Acquire": ["Relaxed"], "Release": ["Relaxed"]}


def _clone_with(prog, path, new_rec):
    p = core.Program.__new__(core.Program)
    p.info = prog.info
    p.adts = prog.adts
    p.impls = prog.impls
    p.items = prog.items
    p._cg = None
    nb = core.Body(new_rec, p)
    p.bodies = dict(prog.bodies)
    old = prog.by_path[path]
    p.bodies[old.name] = [nb if b is old else b for b in prog.bodies[old.name]]
    p.by_path = dict(prog.by_path)
    p.by_path[path] = nb
    # bodies keep a back reference to their program only for capture resolution; point the new one at p
    return p


def _eval(mod, pid, prog):
    sink = []
    crashed = 0
    for rule_id, clause, fn in mod.RULES:
        ctx = report.Ctx(pid, prog, "mutant", sink)
        ctx.rule = rule_id
        ctx.clause = clause
        try:
            fn(ctx)
        except Exception:
            crashed += 1
    failed = sorted(set(o.key for o in sink if not o.ok))
    return failed, crashed


def mutation_closure(pid, mod, prog, obligations, budget_s=600):
    t0 = time.time()
    base_failed, _ = _eval(mod, pid, prog)
    base = set(base_failed)
    refs = {}
    for o in obligations:
        if o.config != "default":
            continue
        for r in o.refs:
            refs.setdefault(r, set()).add(o.key)
    mutants = []
    # delete / flip at referenced sites
    for (path, b, i), keys in sorted(refs.items()):
        body = prog.by_path.get(path)
        if body is None or i != core.TERM:
            continue
        t = body.blocks[b]["term"]
        if t["t"] == "call" and t.get("to") is not None:
            mutants.append(("delete", path, b, None, sorted(keys)))
        elif t["t"] == "switch" and len(set(x[1] for x in t["targets"]) | {t["otherwise"]}) == 2 and len(t["targets"]) == 1:
            mutants.append(("flip", path, b, None, sorted(keys)))
    # weaken orderings of the property's floor table
    ks = atomics.keyed_sites(prog)
    for key, (floors, props, reason) in sorted(entries_for(pid).items()):
        if key not in ks:
            continue
        site, ords = ks[key]
        for ai, (o, f) in enumerate(zip(ords, floors)):
            for w in WEAKER.get(o, []):
                mutants.append(("weaken", site.body.path, site.b, (ai, o, w, f), ["floor|%s" % "|".join(str(x) for x in key)]))
    killed = 0
    survivors = []
    expected_survivors = 0
    samples = []
    done = 0
    for kind, path, b, extra, keys in mutants:
        if time.time() - t0 > budget_s:
            break
        body = prog.by_path[path]
        rec = copy.deepcopy(body.rec)
        for blk in rec["blocks"]:
            blk["term"].pop("callee_n", None)
            blk["term"].pop("resolved_n", None)
        t = rec["blocks"][b]["term"]
        desc = ""
        must_kill = True
        if kind == "delete":
            desc = "delete call %s at %s:%s" % (core.norm(t.get("callee") or "?"), body.file, t.get("line"))
            rec["blocks"][b]["term"] = {"t": "goto", "to": t["to"], "line": t.get("line", 0), "exp": False}
        elif kind == "flip":
            desc = "flip branch at %s:%s" % (body.file, t.get("line"))
            v, tgt = t["targets"][0]
            t["targets"] = [[v, t["otherwise"]]]
            t["otherwise"] = tgt
        else:
            ai, o, w, f = extra
            desc = "weaken %s -> %s (floor %s) at %s:%s" % (o, w, f, body.file, t.get("line"))
            must_kill = not atomics.at_least(w, f)
            # locate the Ordering aggregate feeding argument number ai of type Ordering
            site = core.Site(body, b, core.TERM)
            tys = t.get("argtys", [])
            oidx = [k for k, ty in enumerate(tys) if ty == "std::sync::atomic::Ordering"][ai]
            op = t["args"][oidx]
            done_w = False
            if op.get("k") in ("copy", "move") and not op["pl"]["p"]:
                for d in body.reaching_defs(op["pl"]["l"], site):
                    if not d.is_term:
                        st = rec["blocks"][d.b]["stmts"][d.i]
                        if st["r"]["r"] == "agg" and st["r"].get("variant") == o:
                            st["r"]["variant"] = w
                            done_w = True
            if not done_w:
                continue
        done += 1
        mp = _clone_with(prog, path, rec)
        failed, crashed = _eval(mod, pid, mp)
        new = [k for k in failed if k not in base]
        if new or crashed:
            killed += 1
            if len(samples) < 12:
                samples.append({"mutant": desc, "killed_by": new[:3] or ["(rule crashed: fail closed)"]})
        else:
            if must_kill:
                survivors.append({"mutant": desc, "referenced_by": keys[:3]})
            else:
                expected_survivors += 1
    return {
        "mutation_closure": {
            "operators": ["delete referenced call", "flip referenced two-way branch", "weaken floor-table ordering by one step"],
            "mutants": done,
            "enumerated": len(mutants),
            "killed": killed,
            "survived_expected": expected_survivors,
            "survived": len(survivors),
            "survivors": survivors[:40],
            "kill_samples": samples,
            "exhaustive": done == len(mutants),
            "wall_s": round(time.time() - t0, 1),
            "note": "tests the checker, not the repository: a survivor is a site that a rule cites without depending on it "
                    "(or that is protected redundantly); `survived_expected` = weakenings that stay at or above the floor",
        }
    }


def early_return_probe(pid, mod, prog, obligations, budget_s=300):
    """Additive-change probe: in every function that an obligation of the property cites, insert a *conditional* early return after
    each call in turn (the normal path stays; a new path from that call to the function's return appears) and re-evaluate the rules.
    A killed mutant = some rule notices that the rest of the function can now be skipped (must-pass-through / post-dominance /
    once-per-path rules); a survivor = skipping from there is invisible to this property's rules. Survivors are expected (returning
    early after the last effect is harmless); the list is the map of where a new fast path would not be noticed."""
    t0 = time.time()
    base_failed, _ = _eval(mod, pid, prog)
    base = set(base_failed)
    paths = set()
    for o in obligations:
        if o.config != "default":
            continue
        for (path, b, i) in o.refs:
            paths.add(path)
    mutants = []
    for path in sorted(paths):
        body = prog.by_path.get(path)
        if body is None:
            continue
        rets = [b for b in body.live_blocks if body.blocks[b]["term"]["t"] == "return"]
        if not rets:
            continue
        for b in sorted(body.live_blocks):
            blk = body.blocks[b]
            t = blk["term"]
            if blk["cleanup"] or t["t"] != "call" or t.get("to") is None or t.get("exp"):
                continue
            if t["to"] in rets:
                continue
            mutants.append((path, b, rets[0]))
    killed = 0
    done = 0
    surv_by_fn = {}
    kill_by_fn = {}
    for path, b, ret in mutants:
        if time.time() - t0 > budget_s:
            break
        body = prog.by_path[path]
        rec = copy.deepcopy(body.rec)
        for blk in rec["blocks"]:
            blk["term"].pop("callee_n", None)
            blk["term"].pop("resolved_n", None)
        t = rec["blocks"][b]["term"]
        # `if probe_condition() { return }` : a call to a function the tree does not have, and a branch on its result
        nl = len(rec["locals"])
        rec["locals"].append({"ty": "bool", "head": "bool", "user": False})
        nb = len(rec["blocks"])
        line = t.get("line", 0)
        rec["blocks"].append({"cleanup": False, "stmts": [], "term": {
            "t": "call", "callee": "probe::early_return_condition", "resolved": None, "trait": None, "args": [], "argtys": [],
            "gargs": [], "gdefs": [], "f": {"k": "const", "ty": "fn() -> bool", "fn": "probe::early_return_condition"},
            "dest": {"l": nl, "p": []}, "dty": "bool", "to": nb + 1, "unwind": None, "line": line, "exp": False}})
        rec["blocks"].append({"cleanup": False, "stmts": [], "term": {
            "t": "switch", "d": {"k": "move", "pl": {"l": nl, "p": []}}, "targets": [[0, t["to"]]], "otherwise": ret,
            "dty": "bool", "line": line, "exp": False}})
        t["to"] = nb
        done += 1
        mp = _clone_with(prog, path, rec)
        failed, crashed = _eval(mod, pid, mp)
        new = [k for k in failed if k not in base]
        fn = body.name
        if new or crashed:
            killed += 1
            kill_by_fn[fn] = kill_by_fn.get(fn, 0) + 1
        else:
            surv_by_fn.setdefault(fn, []).append("%s:%s after %s" % (body.file.replace("nexosim/src/", ""), t.get("line"), core.last_seg(core.norm(t.get("callee") or "?"))))
    return {
        "early_return_probe": {
            "operator": "insert `if probe::early_return_condition() { return }` after one call of a cited function (normal path kept; the condition tests something the tree did not test before)",
            "mutants": done, "enumerated": len(mutants), "killed": killed, "exhaustive": done == len(mutants),
            "killed_by_function": kill_by_fn,
            "survivors_by_function": {k: v[:12] for k, v in sorted(surv_by_fn.items())},
            "wall_s": round(time.time() - t0, 1),
            "note": "informational map for added-code changes; survivors are expected where nothing the property needs follows the call",
        }
    }
