"""Obligation bookkeeping, evidence files, VIOLATION / KNOWN-FINDING protocol."""
import json
import os
import time

VERIF = os.path.dirname(os.path.dirname(os.path.abspath(__file__)))
KNOWN = os.path.join(VERIF, "known_findings.json")


class Obligation:
    __slots__ = ("rule", "key", "ok", "msg", "sites", "config", "clause", "refs")

    def __init__(self, rule, key, ok, msg, sites, config, clause, refs=None):
        self.refs = refs or []
        self.rule = rule
        self.key = key
        self.ok = ok
        self.msg = msg
        self.sites = sites
        self.config = config
        self.clause = clause

    def to_json(self):
        return {
            "rule": self.rule,
            "key": self.key,
            "ok": self.ok,
            "what": self.msg,
            "sites": self.sites[:8],
            "config": self.config,
        }


class Ctx:
    """Handed to every rule function: one program (one configuration) + a sink for obligations."""

    def __init__(self, pid, prog, config, sink):
        self.pid = pid
        self.prog = prog
        self.config = config
        self._sink = sink
        self.rule = None
        self.clause = None

    def ob(self, key, ok, msg, sites=()):
        """Record one obligation. `key` identifies the instance without line numbers."""
        ss = []
        refs = []
        for s in sites:
            ss.append(s if isinstance(s, str) else s.describe() if hasattr(s, "describe") else str(s))
            if hasattr(s, "key") and hasattr(s, "body"):
                refs.append(s.key())
        full_key = "%s|%s" % (self.rule, key)
        self._sink.append(Obligation(self.rule, full_key, bool(ok), msg, ss, self.config, self.clause, refs))
        return bool(ok)

    def missing(self, what):
        """Fail closed: an anchor the rule needs was not found."""
        return self.ob("anchor|" + what, False, "anchor not found: " + what)

    # convenience
    def body(self, name):
        b = self.prog.body(name)
        if b is None:
            self.missing(name)
        return b


def load_known():
    if not os.path.exists(KNOWN):
        return {"known": [], "fixed": []}
    with open(KNOWN) as f:
        return json.load(f)


def finish(pid, tier, seed, obligations, infos, t0, explanation, trusted_base, extra=None, level="other", evidence_dir=None):
    """Write evidence, print protocol lines, return exit code."""
    known = load_known()
    known_keys = {}
    for k in known.get("known", []):
        if k.get("property") == pid:
            known_keys[k["key"]] = k
    failed = [o for o in obligations if not o.ok]
    # de-duplicate violations across configurations by key
    viol = {}
    for o in failed:
        viol.setdefault(o.key, o)
    unlisted = [o for k, o in viol.items() if k not in known_keys]
    listed = [o for k, o in viol.items() if k in known_keys]
    distinct = {}
    for o in obligations:
        d = distinct.setdefault(o.key, {"sites": 0, "ok": True})
        d["sites"] = max(d["sites"], len(o.sites))
        d["ok"] = d["ok"] and o.ok
    n_obl = len(distinct)
    n_ok = sum(1 for d in distinct.values() if d["ok"])
    nontrivial = sum(1 for d in distinct.values() if d["sites"] > 0)
    by_rule = {}
    for o in obligations:
        r = by_rule.setdefault(o.rule, {"obligations": 0, "failed": 0, "clause": o.clause})
        r["obligations"] += 1
        if not o.ok:
            r["failed"] += 1
    samples = []
    seen = set()
    for o in obligations:
        if o.key in seen:
            continue
        seen.add(o.key)
        if o.sites and len(samples) < 40:
            samples.append(o.to_json())
    for o in unlisted[:20]:
        samples.append(o.to_json())
    cov = {
        "explanation": explanation,
        "obligations": n_obl,
        "discharged": n_ok,
        "evaluations": len(obligations),
        "distinct_nontrivial": nontrivial,
        "rule": "one obligation = one rule instance (rule id + function + detail); evaluated once per "
        "configuration; non-trivial = the instance matched at least one concrete MIR site",
        "samples": samples,
        "rules": by_rule,
        "configs": [i.get("config") for i in infos],
        "bodies_analysed": {i.get("config"): i.get("bodies") for i in infos},
        "extract_s": {i.get("config"): i.get("extract_s") for i in infos},
        "rustc": infos[0].get("rustc") if infos else None,
        "checker_cmd": "./check %s --tier %s" % (pid, tier),
        "trusted_base": trusted_base,
        "exhaustive": True,
        "known_findings_reported": [o.key for o in listed],
    }
    if extra:
        cov.update(extra)
    ev = {
        "property_id": pid,
        "tier": tier,
        "seed": seed,
        "level": level,
        "coverage": cov,
        "assumptions": trusted_base,
        "wall_s": round(time.time() - t0, 2),
        "violations": len(unlisted),
    }
    # evidence under /verif/evidence describes /repo itself; runs against another tree (--repo: self-tests, scratch worktrees) write elsewhere
    evdir = evidence_dir or os.path.join(VERIF, "evidence")
    os.makedirs(evdir, exist_ok=True)
    with open(os.path.join(evdir, pid + ".json"), "w") as f:
        json.dump(ev, f, indent=1, sort_keys=True)
        f.write("\n")
    for o in listed:
        print("KNOWN-FINDING: property=%s %s :: %s" % (pid, o.key, known_keys[o.key].get("what", o.msg)))
    if unlisted:
        os.makedirs(os.path.join(VERIF, "build", "replay"), exist_ok=True)
        rp = os.path.join(VERIF, "build", "replay", "%s.json" % pid)
        with open(rp, "w") as f:
            json.dump(
                {"property": pid, "tier": tier, "violations": [o.to_json() for o in unlisted]},
                f,
                indent=1,
            )
        for o in unlisted:
            print("  violated: [%s] %s" % (o.key, o.msg))
            for s in o.sites[:6]:
                print("      at " + s)
        print("VIOLATION property=%s replay=%s" % (pid, rp))
        return 1
    print(
        "OK property=%s tier=%s obligations=%d discharged=%d nontrivial=%d configs=%s wall=%.1fs"
        % (pid, tier, n_obl, n_ok, nontrivial, ",".join(cov["configs"]), ev["wall_s"])
    )
    return 0
