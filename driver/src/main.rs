//! nxfacts — MIR fact extractor for the NeXosim static checks (engine E1).
//!
//! Injected with RUSTC_WORKSPACE_WRAPPER under `cargo +nightly check`. For the
//! crate named by NXFACTS_CRATE (default `nexosim`) it serialises every
//! `mir_built` body, all local ADTs and impls as JSON lines into the file named
//! by NXFACTS_OUT (one write per process). Any other crate is compiled
//! unchanged. Nothing of the analysed crate is executed.
#![feature(rustc_private)]
#![allow(clippy::all)]

extern crate rustc_abi;
extern crate rustc_driver;
extern crate rustc_hir;
extern crate rustc_infer;
extern crate rustc_interface;
extern crate rustc_middle;
extern crate rustc_session;
extern crate rustc_span;
extern crate rustc_trait_selection;

use std::fmt::Write as _;
use std::sync::Mutex;

use rustc_driver::Compilation;
use rustc_hir::def::DefKind;
use rustc_hir::def_id::{DefId, LocalDefId};
use rustc_infer::infer::TyCtxtInferExt;
use rustc_middle::mir::{
    AggregateKind, BasicBlock, Body, BorrowKind, Const, ConstValue, Operand, Place, PlaceRef,
    ProjectionElem, Rvalue, StatementKind, TerminatorKind, UnwindAction,
};
use rustc_middle::mir::interpret::{GlobalAlloc, Scalar};
use rustc_middle::ty::{self, Instance, Ty, TyCtxt, TypingEnv};
use rustc_middle::util::Providers;
use rustc_session::Session;
use rustc_span::Span;
use rustc_trait_selection::infer::InferCtxtExt;

// ---------------------------------------------------------------------------
// mir_built capture

static STASH: Mutex<Vec<(LocalDefId, usize)>> = Mutex::new(Vec::new());
static mut ORIG_MIR_BUILT: Option<
    for<'tcx> fn(TyCtxt<'tcx>, LocalDefId) -> &'tcx rustc_data_structures_steal::Steal<Body<'tcx>>,
> = None;

// `Steal` lives in rustc_data_structures.
extern crate rustc_data_structures;
mod rustc_data_structures_steal {
    pub use rustc_data_structures::steal::Steal;
}

fn my_mir_built<'tcx>(
    tcx: TyCtxt<'tcx>,
    def: LocalDefId,
) -> &'tcx rustc_data_structures_steal::Steal<Body<'tcx>> {
    let orig = unsafe { ORIG_MIR_BUILT.expect("orig provider") };
    let steal = orig(tcx, def);
    let cloned: Body<'tcx> = steal.borrow().clone();
    // Leak a boxed clone; the address is kept in the stash and read back in
    // after_analysis while the same TyCtxt is still alive.
    let ptr = Box::into_raw(Box::new(cloned)) as usize;
    STASH.lock().unwrap().push((def, ptr));
    steal
}

fn override_queries(_sess: &Session, p: &mut Providers) {
    unsafe {
        ORIG_MIR_BUILT = Some(p.queries.mir_built);
    }
    p.queries.mir_built = my_mir_built;
}

// ---------------------------------------------------------------------------
// JSON helpers

fn esc(s: &str) -> String {
    let mut o = String::with_capacity(s.len() + 2);
    o.push('"');
    for c in s.chars() {
        match c {
            '"' => o.push_str("\\\""),
            '\\' => o.push_str("\\\\"),
            '\n' => o.push_str("\\n"),
            '\r' => o.push_str("\\r"),
            '\t' => o.push_str("\\t"),
            c if (c as u32) < 0x20 => {
                let _ = write!(o, "\\u{:04x}", c as u32);
            }
            c => o.push(c),
        }
    }
    o.push('"');
    o
}

fn opt_str(s: Option<String>) -> String {
    match s {
        Some(s) => esc(&s),
        None => "null".to_string(),
    }
}

fn bb(b: BasicBlock) -> String {
    b.as_usize().to_string()
}

fn unwind(u: &UnwindAction) -> String {
    match u {
        UnwindAction::Cleanup(b) => bb(*b),
        _ => "null".to_string(),
    }
}

// ---------------------------------------------------------------------------

struct Cx<'a, 'tcx> {
    tcx: TyCtxt<'tcx>,
    body: &'a Body<'tcx>,
    env: TypingEnv<'tcx>,
}

fn span_info(tcx: TyCtxt<'_>, span: Span) -> (String, usize, bool) {
    let exp = span.from_expansion();
    let mut sp = span;
    let mut guard = 0;
    while sp.from_expansion() && guard < 32 {
        sp = sp.source_callsite();
        guard += 1;
    }
    if sp.is_dummy() {
        return (String::new(), 0, exp);
    }
    let sm = tcx.sess.source_map();
    let loc = sm.lookup_char_pos(sp.lo());
    let name = match &loc.file.name {
        rustc_span::FileName::Real(r) => match r.local_path() {
            Some(p) => p.to_string_lossy().to_string(),
            None => format!("{:?}", r),
        },
        other => format!("{:?}", other),
    };
    (name, loc.line, exp)
}

fn ty_str(t: Ty<'_>) -> String {
    ty::print::with_no_trimmed_paths!(format!("{}", t))
}

fn def_path(tcx: TyCtxt<'_>, d: DefId) -> String {
    ty::print::with_no_trimmed_paths!(tcx.def_path_str(d))
}

impl<'a, 'tcx> Cx<'a, 'tcx> {
    fn field_name(&self, base: PlaceRef<'tcx>, idx: usize) -> String {
        let pty = base.ty(self.body, self.tcx);
        match pty.ty.kind() {
            ty::Adt(adt, _) => {
                let v = match pty.variant_index {
                    Some(v) => v,
                    None => {
                        if adt.is_enum() {
                            return idx.to_string();
                        }
                        rustc_abi::FIRST_VARIANT
                    }
                };
                let var = adt.variant(v);
                var.fields
                    .iter()
                    .nth(idx)
                    .map(|f| f.name.to_string())
                    .unwrap_or_else(|| idx.to_string())
            }
            _ => idx.to_string(),
        }
    }

    fn place(&self, p: &Place<'tcx>) -> String {
        let mut o = String::new();
        let _ = write!(o, "{{\"l\":{},\"p\":[", p.local.as_usize());
        let mut first = true;
        for (base, elem) in p.as_ref().iter_projections() {
            if !first {
                o.push(',');
            }
            first = false;
            match elem {
                ProjectionElem::Deref => o.push_str("\"*\""),
                ProjectionElem::Field(f, _) => {
                    let name = self.field_name(base, f.as_usize());
                    let owner = ty_head(self.tcx, base.ty(self.body, self.tcx).ty);
                    let _ = write!(o, "[\"f\",{},{},{}]", f.as_usize(), esc(&name), esc(&owner));
                }
                ProjectionElem::Downcast(sym, v) => {
                    let name = match sym {
                        Some(s) => s.to_string(),
                        None => {
                            let pty = base.ty(self.body, self.tcx);
                            match pty.ty.kind() {
                                ty::Adt(adt, _) => adt.variant(v).name.to_string(),
                                _ => v.as_usize().to_string(),
                            }
                        }
                    };
                    let _ = write!(o, "[\"d\",{},{}]", esc(&name), v.as_usize());
                }
                ProjectionElem::Index(l) => {
                    let _ = write!(o, "[\"i\",{}]", l.as_usize());
                }
                ProjectionElem::ConstantIndex { offset, from_end, .. } => {
                    let _ = write!(o, "[\"ci\",{},{}]", offset, from_end);
                }
                _ => o.push_str("[\"o\"]"),
            }
        }
        o.push_str("]}");
        o
    }

    fn place_ty(&self, p: &Place<'tcx>) -> String {
        ty_str(p.ty(self.body, self.tcx).ty)
    }

    fn konst(&self, c: &Const<'tcx>) -> String {
        let tcx = self.tcx;
        let ty = c.ty();
        let mut o = String::new();
        let _ = write!(o, "{{\"k\":\"const\",\"ty\":{}", esc(&ty_str(ty)));
        // function item / closure types
        match ty.kind() {
            ty::FnDef(d, args) => {
                let _ = write!(o, ",\"fn\":{}", esc(&def_path(tcx, *d)));
                let ga: Vec<String> = args.iter().map(|a| esc(&garg_str(a))).collect();
                let _ = write!(o, ",\"gargs\":[{}]", ga.join(","));
            }
            _ => {}
        }
        // named constant
        if let Const::Unevaluated(uv, _) = c {
            let _ = write!(o, ",\"def\":{}", esc(&def_path(tcx, uv.def)));
            if uv.promoted.is_some() {
                o.push_str(",\"promoted\":true");
            }
        }
        // scalar value
        let is_scalar_ty = ty.is_integral() || ty.is_bool() || ty.is_char();
        if is_scalar_ty {
            let promoted = matches!(c, Const::Unevaluated(uv, _) if uv.promoted.is_some());
            if !promoted {
                if let Some(si) = c.try_eval_scalar_int(tcx, self.env) {
                    let size = si.size();
                    let bits = si.to_bits(size);
                    if ty.is_signed() {
                        let v = size.sign_extend(bits) as i128;
                        let _ = write!(o, ",\"v\":{}", v);
                    } else if ty.is_bool() {
                        let _ = write!(o, ",\"v\":{}", if bits != 0 { "true" } else { "false" });
                    } else {
                        let _ = write!(o, ",\"v\":{}", bits);
                    }
                }
            }
        }
        // pointer to a static
        if let Const::Val(ConstValue::Scalar(Scalar::Ptr(ptr, _)), _) = c {
            let alloc_id = ptr.provenance.alloc_id();
            if let Some(GlobalAlloc::Static(d)) = tcx.try_get_global_alloc(alloc_id) {
                let _ = write!(o, ",\"static\":{}", esc(&def_path(tcx, d)));
            }
        }
        let text = ty::print::with_no_trimmed_paths!(format!("{}", c));
        let text = if text.len() > 200 { text[..200].to_string() } else { text };
        let _ = write!(o, ",\"text\":{}}}", esc(&text));
        o
    }

    fn operand(&self, op: &Operand<'tcx>) -> String {
        match op {
            Operand::Copy(p) => format!("{{\"k\":\"copy\",\"pl\":{}}}", self.place(p)),
            Operand::Move(p) => format!("{{\"k\":\"move\",\"pl\":{}}}", self.place(p)),
            Operand::Constant(c) => self.konst(&c.const_),
            _ => "{\"k\":\"rtcheck\"}".to_string(),
        }
    }

    fn rvalue(&self, rv: &Rvalue<'tcx>) -> String {
        let tcx = self.tcx;
        match rv {
            Rvalue::Use(op, ..) => format!("{{\"r\":\"use\",\"o\":{}}}", self.operand(op)),
            Rvalue::Ref(_, bk, p) => {
                let m = matches!(bk, BorrowKind::Mut { .. });
                let fake = matches!(bk, BorrowKind::Fake(_));
                format!(
                    "{{\"r\":\"ref\",\"mut\":{},\"fake\":{},\"pl\":{}}}",
                    m,
                    fake,
                    self.place(p)
                )
            }
            Rvalue::RawPtr(_, p) => format!("{{\"r\":\"rawptr\",\"pl\":{}}}", self.place(p)),
            Rvalue::Cast(kind, op, ty) => format!(
                "{{\"r\":\"cast\",\"kind\":{},\"o\":{},\"ty\":{}}}",
                esc(&format!("{:?}", kind)),
                self.operand(op),
                esc(&ty_str(*ty))
            ),
            Rvalue::BinaryOp(op, ab) => format!(
                "{{\"r\":\"bin\",\"op\":{},\"a\":{},\"b\":{}}}",
                esc(&format!("{:?}", op)),
                self.operand(&ab.0),
                self.operand(&ab.1)
            ),
            Rvalue::UnaryOp(op, a) => format!(
                "{{\"r\":\"un\",\"op\":{},\"o\":{}}}",
                esc(&format!("{:?}", op)),
                self.operand(a)
            ),
            Rvalue::Discriminant(p) => {
                let pty = p.ty(self.body, tcx).ty;
                let mut vs = String::new();
                if let ty::Adt(adt, _) = pty.kind() {
                    if adt.is_enum() {
                        let mut f = true;
                        for (vi, d) in adt.discriminants(tcx) {
                            if !f {
                                vs.push(',');
                            }
                            f = false;
                            let _ = write!(vs, "[{},{}]", esc(&adt.variant(vi).name.to_string()), d.val);
                        }
                    }
                }
                format!(
                    "{{\"r\":\"discr\",\"pl\":{},\"ty\":{},\"head\":{},\"variants\":[{}]}}",
                    self.place(p),
                    esc(&ty_str(pty)),
                    esc(&ty_head(tcx, pty)),
                    vs
                )
            }
            Rvalue::CopyForDeref(p) => format!("{{\"r\":\"cfd\",\"pl\":{}}}", self.place(p)),
            Rvalue::ThreadLocalRef(d) => {
                format!("{{\"r\":\"tlref\",\"def\":{}}}", esc(&def_path(tcx, *d)))
            }
            Rvalue::Repeat(op, _) => format!("{{\"r\":\"repeat\",\"o\":{}}}", self.operand(op)),
            Rvalue::Aggregate(kind, ops) => {
                let mut o = String::from("{\"r\":\"agg\"");
                match &**kind {
                    AggregateKind::Array(_) => o.push_str(",\"kind\":\"array\""),
                    AggregateKind::Tuple => o.push_str(",\"kind\":\"tuple\""),
                    AggregateKind::Adt(d, v, _, _, active) => {
                        let adt = tcx.adt_def(*d);
                        let var = adt.variant(*v);
                        let _ = write!(
                            o,
                            ",\"kind\":\"adt\",\"adt\":{},\"variant\":{},\"vidx\":{}",
                            esc(&def_path(tcx, *d)),
                            esc(&var.name.to_string()),
                            v.as_usize()
                        );
                        let names: Vec<String> = match active {
                            Some(f) => vec![esc(&var.fields[*f].name.to_string())],
                            None => var.fields.iter().map(|f| esc(&f.name.to_string())).collect(),
                        };
                        let _ = write!(o, ",\"fields\":[{}]", names.join(","));
                    }
                    AggregateKind::Closure(d, _) => {
                        let _ = write!(o, ",\"kind\":\"closure\",\"def\":{}", esc(&def_path(tcx, *d)));
                    }
                    AggregateKind::Coroutine(d, _) => {
                        let _ =
                            write!(o, ",\"kind\":\"coroutine\",\"def\":{}", esc(&def_path(tcx, *d)));
                    }
                    AggregateKind::CoroutineClosure(d, _) => {
                        let _ = write!(
                            o,
                            ",\"kind\":\"coroutine_closure\",\"def\":{}",
                            esc(&def_path(tcx, *d))
                        );
                    }
                    AggregateKind::RawPtr(..) => o.push_str(",\"kind\":\"rawptr\""),
                }
                let opss: Vec<String> = ops.iter().map(|x| self.operand(x)).collect();
                let _ = write!(o, ",\"ops\":[{}]}}", opss.join(","));
                o
            }
            other => format!("{{\"r\":\"other\",\"text\":{}}}", esc(&format!("{:?}", other))),
        }
    }

    fn call(
        &self,
        func: &Operand<'tcx>,
        args: &[rustc_span::Spanned<Operand<'tcx>>],
    ) -> String {
        let tcx = self.tcx;
        let mut o = String::new();
        let _ = write!(o, "\"f\":{}", self.operand(func));
        let fty = func.ty(self.body, tcx);
        if let ty::FnDef(d, gargs) = fty.kind() {
            let _ = write!(o, ",\"callee\":{}", esc(&def_path(tcx, *d)));
            let ga: Vec<String> = gargs.iter().map(|a| esc(&garg_str(a))).collect();
            let _ = write!(o, ",\"gargs\":[{}]", ga.join(","));
            // def ids of closures / coroutines / fn items appearing in the generic args
            let mut gdefs: Vec<String> = Vec::new();
            for a in gargs.iter() {
                if let Some(t) = a.as_type() {
                    collect_defs(tcx, t, &mut gdefs, 0);
                }
            }
            let gd: Vec<String> = gdefs.iter().map(|s| esc(s)).collect();
            let _ = write!(o, ",\"gdefs\":[{}]", gd.join(","));
            // trait of the callee, if a trait method
            if let Some(tr) = tcx.trait_of_assoc(*d) {
                let _ = write!(o, ",\"trait\":{}", esc(&def_path(tcx, tr)));
            }
            if let Some(imp) = tcx.impl_of_assoc(*d) {
                let self_ty = tcx.type_of(imp).instantiate_identity().skip_norm_wip();
                let _ = write!(o, ",\"impl_self\":{}", esc(&ty_head(tcx, self_ty)));
            }
            // resolved instance
            let resolved = std::panic::catch_unwind(std::panic::AssertUnwindSafe(|| {
                match tcx.try_normalize_erasing_regions(self.env, ty::Unnormalized::new_wip(*gargs)) {
                    Ok(nargs) => match Instance::try_resolve(tcx, self.env, *d, nargs) {
                        Ok(Some(inst)) => Some((def_path(tcx, inst.def_id()), format!("{:?}", inst.def).split('(').next().unwrap_or("").to_string())),
                        _ => None,
                    },
                    Err(_) => None,
                }
            }));
            if let Ok(Some((p, kind))) = resolved {
                let _ = write!(o, ",\"resolved\":{},\"rkind\":{}", esc(&p), esc(&kind));
            }
        }
        let a: Vec<String> = args.iter().map(|x| self.operand(&x.node)).collect();
        let _ = write!(o, ",\"args\":[{}]", a.join(","));
        let at: Vec<String> =
            args.iter().map(|x| esc(&ty_str(x.node.ty(self.body, tcx)))).collect();
        let _ = write!(o, ",\"argtys\":[{}]", at.join(","));
        o
    }
}

fn garg_str(a: ty::GenericArg<'_>) -> String {
    ty::print::with_no_trimmed_paths!(format!("{}", a))
}

/// Head constructor of a type as a def path (ADT path, closure path, ...).
fn ty_head<'tcx>(tcx: TyCtxt<'tcx>, t: Ty<'tcx>) -> String {
    match t.kind() {
        ty::Adt(adt, _) => def_path(tcx, adt.did()),
        ty::Closure(d, _) | ty::Coroutine(d, _) | ty::CoroutineClosure(d, _) | ty::FnDef(d, _) => {
            def_path(tcx, *d)
        }
        ty::Ref(_, inner, _) => ty_head(tcx, *inner),
        ty::RawPtr(inner, _) => ty_head(tcx, *inner),
        _ => ty_str(t),
    }
}

fn collect_defs<'tcx>(tcx: TyCtxt<'tcx>, t: Ty<'tcx>, out: &mut Vec<String>, depth: usize) {
    if depth > 6 {
        return;
    }
    match t.kind() {
        ty::Closure(d, args) | ty::Coroutine(d, args) | ty::CoroutineClosure(d, args) => {
            out.push(def_path(tcx, *d));
            let _ = args;
        }
        ty::FnDef(d, args) => {
            out.push(def_path(tcx, *d));
            for a in args.iter() {
                if let Some(t) = a.as_type() {
                    collect_defs(tcx, t, out, depth + 1);
                }
            }
        }
        ty::Adt(_, args) => {
            for a in args.iter() {
                if let Some(t) = a.as_type() {
                    collect_defs(tcx, t, out, depth + 1);
                }
            }
        }
        ty::Ref(_, inner, _) | ty::RawPtr(inner, _) => collect_defs(tcx, *inner, out, depth + 1),
        ty::Tuple(ts) => {
            for t in ts.iter() {
                collect_defs(tcx, t, out, depth + 1);
            }
        }
        _ => {}
    }
}

fn emit_body<'tcx>(tcx: TyCtxt<'tcx>, def: LocalDefId, body: &Body<'tcx>, out: &mut String) {
    let did = def.to_def_id();
    let kind = tcx.def_kind(did);
    let env = TypingEnv::post_analysis(tcx, did);
    let cx = Cx { tcx, body, env };
    let (file, line, _) = span_info(tcx, body.span);
    let end_line = {
        let sm = tcx.sess.source_map();
        let mut sp = body.span;
        let mut g = 0;
        while sp.from_expansion() && g < 32 {
            sp = sp.source_callsite();
            g += 1;
        }
        if sp.is_dummy() { 0 } else { sm.lookup_char_pos(sp.hi()).line }
    };
    let kind_s = if body.coroutine.is_some() {
        "coroutine".to_string()
    } else {
        format!("{:?}", kind)
    };
    let parent = tcx.opt_parent(did).map(|p| def_path(tcx, p));
    let mut impl_self = None;
    let mut impl_trait = None;
    let mut vis = None;
    let mut is_unsafe = false;
    if matches!(kind, DefKind::Fn | DefKind::AssocFn) {
        vis = Some(format!("{:?}", tcx.visibility(did)));
        let sig = tcx.fn_sig(did).instantiate_identity().skip_norm_wip();
        is_unsafe = sig.safety().is_unsafe();
        if let Some(imp) = tcx.impl_of_assoc(did) {
            let self_ty = tcx.type_of(imp).instantiate_identity().skip_norm_wip();
            impl_self = Some(ty_head(tcx, self_ty));
            if let Some(tr) = tcx.impl_opt_trait_ref(imp) {
                impl_trait = Some(def_path(tcx, tr.skip_binder().def_id));
            }
        }
    }
    let _ = write!(
        out,
        "{{\"k\":\"body\",\"path\":{},\"kind\":{},\"file\":{},\"line\":{},\"end_line\":{},\"argc\":{},\"parent\":{},\"impl_self\":{},\"impl_trait\":{},\"vis\":{},\"unsafe\":{}",
        esc(&def_path(tcx, did)),
        esc(&kind_s),
        esc(&file),
        line,
        end_line,
        body.arg_count,
        opt_str(parent),
        opt_str(impl_self),
        opt_str(impl_trait),
        opt_str(vis),
        is_unsafe
    );
    // locals
    out.push_str(",\"locals\":[");
    for (i, (_l, decl)) in body.local_decls.iter_enumerated().enumerate() {
        if i > 0 {
            out.push(',');
        }
        let _ = write!(
            out,
            "{{\"ty\":{},\"head\":{},\"user\":{}}}",
            esc(&ty_str(decl.ty)),
            esc(&ty_head(tcx, decl.ty)),
            decl.is_user_variable()
        );
    }
    out.push_str("],\"debug\":[");
    let mut first = true;
    for vdi in body.var_debug_info.iter() {
        if let rustc_middle::mir::VarDebugInfoContents::Place(p) = &vdi.value {
            if !first {
                out.push(',');
            }
            first = false;
            let _ = write!(out, "{{\"name\":{},\"pl\":{}}}", esc(&vdi.name.to_string()), cx.place(p));
        }
    }
    out.push_str("],\"blocks\":[");
    for (bi, (_b, data)) in body.basic_blocks.iter_enumerated().enumerate() {
        if bi > 0 {
            out.push(',');
        }
        let _ = write!(out, "{{\"cleanup\":{},\"stmts\":[", data.is_cleanup);
        let mut first = true;
        for st in data.statements.iter() {
            let s = match &st.kind {
                StatementKind::Assign(b) => {
                    let (p, rv) = &**b;
                    let (_, line, exp) = span_info(tcx, st.source_info.span);
                    // head of the assigned place's type, only for projected places (whole-value overwrites)
                    let pty = p.ty(body, tcx).ty;
                    let ph = if p.projection.is_empty() || !matches!(pty.kind(), ty::Adt(..)) {
                        String::new()
                    } else {
                        format!(",\"ph\":{}", esc(&ty_head(tcx, pty)))
                    };
                    Some(format!(
                        "{{\"s\":\"assign\",\"p\":{},\"r\":{},\"line\":{},\"exp\":{}{}}}",
                        cx.place(p),
                        cx.rvalue(rv),
                        line,
                        exp,
                        ph
                    ))
                }
                StatementKind::SetDiscriminant { place, variant_index } => Some(format!(
                    "{{\"s\":\"setdiscr\",\"p\":{},\"v\":{}}}",
                    cx.place(place),
                    variant_index.as_usize()
                )),
                StatementKind::StorageDead(l) => {
                    Some(format!("{{\"s\":\"dead\",\"l\":{}}}", l.as_usize()))
                }
                StatementKind::StorageLive(l) => {
                    Some(format!("{{\"s\":\"live\",\"l\":{}}}", l.as_usize()))
                }
                _ => None,
            };
            if let Some(s) = s {
                if !first {
                    out.push(',');
                }
                first = false;
                out.push_str(&s);
            }
        }
        out.push_str("],\"term\":");
        let term = data.terminator();
        let (_, tline, texp) = span_info(tcx, term.source_info.span);
        let t = match &term.kind {
            TerminatorKind::Goto { target } => format!("{{\"t\":\"goto\",\"to\":{}", bb(*target)),
            TerminatorKind::SwitchInt { discr, targets } => {
                let mut s = format!("{{\"t\":\"switch\",\"d\":{},\"targets\":[", cx.operand(discr));
                let mut f = true;
                for (v, t) in targets.iter() {
                    if !f {
                        s.push(',');
                    }
                    f = false;
                    let _ = write!(s, "[{},{}]", v, bb(t));
                }
                let _ = write!(
                    s,
                    "],\"otherwise\":{},\"dty\":{}",
                    bb(targets.otherwise()),
                    esc(&ty_str(discr.ty(body, tcx)))
                );
                s
            }
            TerminatorKind::UnwindResume => "{\"t\":\"resume\"".to_string(),
            TerminatorKind::UnwindTerminate(_) => "{\"t\":\"terminate\"".to_string(),
            TerminatorKind::Return => "{\"t\":\"return\"".to_string(),
            TerminatorKind::Unreachable => "{\"t\":\"unreachable\"".to_string(),
            TerminatorKind::Drop { place, target, unwind: u, .. } => format!(
                "{{\"t\":\"drop\",\"pl\":{},\"ty\":{},\"head\":{},\"to\":{},\"unwind\":{}",
                cx.place(place),
                esc(&cx.place_ty(place)),
                esc(&ty_head(tcx, place.ty(body, tcx).ty)),
                bb(*target),
                unwind(u)
            ),
            TerminatorKind::Call { func, args, destination, target, unwind: u, .. } => format!(
                "{{\"t\":\"call\",{},\"dest\":{},\"dty\":{},\"to\":{},\"unwind\":{}",
                cx.call(func, args),
                cx.place(destination),
                esc(&cx.place_ty(destination)),
                target.map(bb).unwrap_or_else(|| "null".to_string()),
                unwind(u)
            ),
            TerminatorKind::TailCall { func, args, .. } => {
                format!("{{\"t\":\"tailcall\",{}", cx.call(func, args))
            }
            TerminatorKind::Assert { cond, expected, target, unwind: u, .. } => format!(
                "{{\"t\":\"assert\",\"c\":{},\"expected\":{},\"to\":{},\"unwind\":{}",
                cx.operand(cond),
                expected,
                bb(*target),
                unwind(u)
            ),
            TerminatorKind::Yield { value, resume, drop, .. } => format!(
                "{{\"t\":\"yield\",\"v\":{},\"to\":{},\"drop\":{}",
                cx.operand(value),
                bb(*resume),
                drop.map(bb).unwrap_or_else(|| "null".to_string())
            ),
            TerminatorKind::CoroutineDrop => "{\"t\":\"cordrop\"".to_string(),
            TerminatorKind::FalseEdge { real_target, imaginary_target } => format!(
                "{{\"t\":\"falseedge\",\"to\":{},\"imag\":{}",
                bb(*real_target),
                bb(*imaginary_target)
            ),
            TerminatorKind::FalseUnwind { real_target, unwind: u } => {
                format!("{{\"t\":\"falseunwind\",\"to\":{},\"unwind\":{}", bb(*real_target), unwind(u))
            }
            TerminatorKind::InlineAsm { .. } => "{\"t\":\"asm\"".to_string(),
        };
        out.push_str(&t);
        let _ = write!(out, ",\"line\":{},\"exp\":{}}}}}", tline, texp);
    }
    out.push_str("]}\n");
}

fn implements<'tcx>(tcx: TyCtxt<'tcx>, env: TypingEnv<'tcx>, t: Ty<'tcx>, tr: DefId) -> bool {
    let (infcx, param_env) = tcx.infer_ctxt().build_with_typing_env(env);
    infcx.type_implements_trait(tr, [t], param_env).must_apply_modulo_regions()
}

fn emit_types<'tcx>(tcx: TyCtxt<'tcx>, out: &mut String) {
    let li = tcx.lang_items();
    let traits: Vec<(&str, Option<DefId>)> = vec![
        ("Clone", li.clone_trait()),
        ("Copy", li.copy_trait()),
        ("Sync", li.sync_trait()),
        ("Send", tcx.get_diagnostic_item(rustc_span::sym::Send)),
        ("Drop", li.drop_trait()),
        ("Unpin", li.unpin_trait()),
    ];
    for id in tcx.hir_free_items() {
        let did = id.owner_id.to_def_id();
        let kind = tcx.def_kind(did);
        match kind {
            DefKind::Struct | DefKind::Enum | DefKind::Union => {
                let adt = tcx.adt_def(did);
                let env = TypingEnv::non_body_analysis(tcx, did);
                let (file, line, exp) = span_info(tcx, tcx.def_span(did));
                let self_ty = tcx.type_of(did).instantiate_identity().skip_norm_wip();
                let _ = write!(
                    out,
                    "{{\"k\":\"adt\",\"path\":{},\"kind\":{},\"vis\":{},\"file\":{},\"line\":{},\"exp\":{},\"ty\":{},\"impls\":{{",
                    esc(&def_path(tcx, did)),
                    esc(&format!("{:?}", kind)),
                    esc(&format!("{:?}", tcx.visibility(did))),
                    esc(&file),
                    line,
                    exp,
                    esc(&ty_str(self_ty))
                );
                let mut f = true;
                for (n, t) in traits.iter() {
                    if let Some(t) = t {
                        if !f {
                            out.push(',');
                        }
                        f = false;
                        let _ = write!(out, "{}:{}", esc(n), implements(tcx, env, self_ty, *t));
                    }
                }
                out.push_str("},\"variants\":[");
                for (vi, v) in adt.variants().iter().enumerate() {
                    if vi > 0 {
                        out.push(',');
                    }
                    let _ = write!(out, "{{\"name\":{},\"fields\":[", esc(&v.name.to_string()));
                    for (fi, fd) in v.fields.iter().enumerate() {
                        if fi > 0 {
                            out.push(',');
                        }
                        let fty = tcx.type_of(fd.did).instantiate_identity().skip_norm_wip();
                        let _ = write!(
                            out,
                            "{{\"name\":{},\"ty\":{},\"head\":{},\"vis\":{},\"impls\":{{",
                            esc(&fd.name.to_string()),
                            esc(&ty_str(fty)),
                            esc(&ty_head(tcx, fty)),
                            esc(&format!("{:?}", fd.vis))
                        );
                        let mut f = true;
                        for (n, t) in traits.iter() {
                            if let Some(t) = t {
                                if !f {
                                    out.push(',');
                                }
                                f = false;
                                let _ = write!(out, "{}:{}", esc(n), implements(tcx, env, fty, *t));
                            }
                        }
                        out.push_str("}}");
                    }
                    out.push_str("]}");
                }
                out.push_str("]}\n");
            }
            DefKind::Impl { .. } => {
                let self_ty = tcx.type_of(did).instantiate_identity().skip_norm_wip();
                let tr = tcx.impl_opt_trait_ref(did).map(|t| def_path(tcx, t.skip_binder().def_id));
                let (file, line, exp) = span_info(tcx, tcx.def_span(did));
                let items: Vec<String> = tcx
                    .associated_item_def_ids(did)
                    .iter()
                    .map(|d| esc(&def_path(tcx, *d)))
                    .collect();
                let neg = tr.is_some() && matches!(tcx.impl_polarity(did), ty::ImplPolarity::Negative);
                let _ = write!(
                    out,
                    "{{\"k\":\"impl\",\"self_ty\":{},\"self_head\":{},\"trait\":{},\"negative\":{},\"file\":{},\"line\":{},\"exp\":{},\"items\":[{}]}}\n",
                    esc(&ty_str(self_ty)),
                    esc(&ty_head(tcx, self_ty)),
                    opt_str(tr),
                    neg,
                    esc(&file),
                    line,
                    exp,
                    items.join(",")
                );
            }
            DefKind::Const { .. } | DefKind::Static { .. } => {
                let ty = tcx.type_of(did).instantiate_identity().skip_norm_wip();
                let (file, line, _) = span_info(tcx, tcx.def_span(did));
                let mut val = String::from("null");
                if matches!(kind, DefKind::Const { .. }) && (ty.is_integral() || ty.is_bool()) {
                    let env = TypingEnv::fully_monomorphized();
                    let c = Const::Unevaluated(
                        rustc_middle::mir::UnevaluatedConst {
                            def: did,
                            args: ty::GenericArgs::empty(),
                            promoted: None,
                        },
                        ty,
                    );
                    if tcx.generics_of(did).count() == 0 {
                        if let Some(si) = c.try_eval_scalar_int(tcx, env) {
                            let size = si.size();
                            let bits = si.to_bits(size);
                            val = if ty.is_bool() {
                                (bits != 0).to_string()
                            } else if ty.is_signed() {
                                (size.sign_extend(bits) as i128).to_string()
                            } else {
                                bits.to_string()
                            };
                        }
                    }
                }
                let _ = write!(
                    out,
                    "{{\"k\":\"item\",\"path\":{},\"kind\":{},\"ty\":{},\"v\":{},\"file\":{},\"line\":{}}}\n",
                    esc(&def_path(tcx, did)),
                    esc(&format!("{:?}", kind)),
                    esc(&ty_str(ty)),
                    val,
                    esc(&file),
                    line
                );
            }
            _ => {}
        }
    }
    // associated consts of impls (e.g. masks) are rarely used; top-level consts suffice.
}

struct Cb {
    target: bool,
}

impl rustc_driver::Callbacks for Cb {
    fn config(&mut self, config: &mut rustc_interface::interface::Config) {
        if self.target {
            config.override_queries = Some(override_queries);
        }
    }

    fn after_analysis<'tcx>(
        &mut self,
        _compiler: &rustc_interface::interface::Compiler,
        tcx: TyCtxt<'tcx>,
    ) -> Compilation {
        if !self.target {
            return Compilation::Continue;
        }
        // Force every body (check builds do this anyway through borrowck).
        for def in tcx.hir_body_owners() {
            let k = tcx.def_kind(def.to_def_id());
            if matches!(k, DefKind::Fn | DefKind::AssocFn) && !tcx.is_typeck_child(def.to_def_id()) {
                let _ = tcx.mir_borrowck(def);
            }
        }
        let stash: Vec<(LocalDefId, usize)> = std::mem::take(&mut *STASH.lock().unwrap());
        let mut out = String::with_capacity(64 << 20);
        let nonce = std::env::var("NXFACTS_NONCE").unwrap_or_default();
        let mut n = 0usize;
        let mut seen = std::collections::HashSet::new();
        let mut bodies = String::new();
        for (def, ptr) in stash.iter() {
            if !seen.insert(*def) {
                continue;
            }
            let body: &Body<'tcx> = unsafe { &*(*ptr as *const Body<'tcx>) };
            let k = tcx.def_kind(def.to_def_id());
            if !matches!(k, DefKind::Fn | DefKind::AssocFn | DefKind::Closure | DefKind::SyntheticCoroutineBody) {
                continue;
            }
            emit_body(tcx, *def, body, &mut bodies);
            n += 1;
        }
        let features: Vec<String> = std::env::vars()
            .filter(|(k, _)| k.starts_with("CARGO_FEATURE_"))
            .map(|(k, _)| esc(&k["CARGO_FEATURE_".len()..].to_lowercase()))
            .collect();
        let _ = write!(
            out,
            "{{\"k\":\"meta\",\"nonce\":{},\"crate\":{},\"bodies\":{},\"features\":[{}],\"rustc\":{}}}\n",
            esc(&nonce),
            esc(&tcx.crate_name(rustc_hir::def_id::LOCAL_CRATE).to_string()),
            n,
            features.join(","),
            esc(&rustc_interface::util::rustc_version_str().unwrap_or("unknown").to_string())
        );
        out.push_str(&bodies);
        emit_types(tcx, &mut out);
        out.push_str("{\"k\":\"end\"}\n");
        let path = std::env::var("NXFACTS_OUT").expect("NXFACTS_OUT not set");
        std::fs::write(&path, out).expect("cannot write facts");
        Compilation::Continue
    }
}

fn main() {
    let mut args: Vec<String> = std::env::args().collect();
    // RUSTC_WORKSPACE_WRAPPER: argv[1] is the path of the real rustc.
    if args.len() > 1 && (args[1].ends_with("rustc") || args[1].contains("/rustc")) {
        args.remove(1);
    }
    let want = std::env::var("NXFACTS_CRATE").unwrap_or_else(|_| "nexosim".to_string());
    let mut crate_name = None;
    let mut is_lib = true;
    let mut it = args.iter();
    while let Some(a) = it.next() {
        if a == "--crate-name" {
            crate_name = it.next().cloned();
        }
        if a == "--test" {
            is_lib = false;
        }
        if a == "--crate-type" {
            if let Some(t) = it.next() {
                if t == "bin" {
                    is_lib = false;
                }
            }
        }
    }
    let target = crate_name.as_deref() == Some(want.as_str())
        && is_lib
        && std::env::var("NXFACTS_OUT").is_ok()
        && !args.iter().any(|a| a == "--print" || a.starts_with("--print="));
    let mut cb = Cb { target };
    rustc_driver::run_compiler(&args, &mut cb);
}
