use std::sync::atomic::{AtomicBool, Ordering};
use std::sync::Arc;
use std::time::{Duration, Instant};
use nexosim::model::Model;
use nexosim::simulation::{Mailbox, SimInit};
use nexosim::time::MonotonicTime;

struct Nop;
impl Nop { fn nop(&mut self) {} }
impl Model for Nop {}

#[test]
fn f3_time_goes_backwards() {
    let mbox = Mailbox::new();
    let addr = mbox.address();
    let (mut simu, sched) = SimInit::with_num_threads(1).add_model(Nop, mbox, "n").init(MonotonicTime::EPOCH).unwrap();
    let stop = Arc::new(AtomicBool::new(false));
    let th = {
        let stop = stop.clone();
        std::thread::spawn(move || {
            let mut n = 0u64;
            while !stop.load(Ordering::Relaxed) {
                let _ = sched.schedule_event(Duration::from_nanos(1), Nop::nop, (), &addr);
                n += 1;
                let t = Instant::now(); while t.elapsed() < Duration::from_micros(3) { std::hint::spin_loop(); }
            }
            n
        })
    };
    let start = Instant::now();
    let mut prev = simu.time();
    let mut iters = 0u64;
    let mut found = None;
    while start.elapsed() < Duration::from_secs(40) {
        simu.step_until(Duration::from_nanos(2)).unwrap();
        let t = simu.time();
        if t < prev { found = Some((prev, t, "after step_until")); break; }
        prev = t;
        simu.step().unwrap();
        let t = simu.time();
        if t < prev { found = Some((prev, t, "after step")); break; }
        prev = t;
        iters += 1;
    }
    stop.store(true, Ordering::Relaxed);
    let n = th.join().unwrap();
    println!("iters={iters} scheduled={n} backwards={found:?}");
}
