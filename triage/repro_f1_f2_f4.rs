use std::time::Duration;
use nexosim::model::{BuildContext, Context, Model, ProtoModel};
use nexosim::ports::{EventSource, Output, Requestor};
use nexosim::simulation::{ExecutionError, Mailbox, SimInit};
use nexosim::time::MonotonicTime;

#[derive(Default)]
struct Boom;
impl Boom {
    fn go(&mut self) { panic!("boom"); }
    fn nop(&mut self) {}
}
impl Model for Boom {}

// F1: after a fatal error, step()/step_until() do not return Terminated.
#[test]
fn f1_terminated_bypass() {
    for threads in [1usize, 3] {
        let mbox = Mailbox::new();
        let addr = mbox.address();
        let t0 = MonotonicTime::EPOCH;
        let (mut simu, sched) = SimInit::with_num_threads(threads).add_model(Boom, mbox, "boom").init(t0).unwrap();
        let r = simu.process_event(Boom::go, (), &addr);
        assert!(matches!(r, Err(ExecutionError::Panic { .. })), "{r:?}");
        let r1 = simu.step();
        let r2 = simu.step_until(Duration::from_secs(5));
        println!("threads={threads} step-after-fatal={r1:?} step_until-after-fatal={r2:?} time={}", simu.time());
        let _ = sched;
    }
}

// F1b: ST executor after Timeout: spawn panics.
struct Sleeper;
impl Sleeper { fn sleep(&mut self) { std::thread::sleep(Duration::from_millis(300)); } }
impl Model for Sleeper {}
#[test]
fn f1b_st_timeout_then_process_panics() {
    let mbox = Mailbox::new();
    let addr = mbox.address();
    let (mut simu, _s) = SimInit::with_num_threads(1).add_model(Sleeper, mbox, "s").set_timeout(Duration::from_millis(50)).init(MonotonicTime::EPOCH).unwrap();
    let r = simu.process_event(Sleeper::sleep, (), &addr);
    assert!(matches!(r, Err(ExecutionError::Timeout)), "{r:?}");
    let r = std::panic::catch_unwind(std::panic::AssertUnwindSafe(|| simu.process_event(Sleeper::sleep, (), &addr)));
    println!("second call after ST timeout: panicked={}", r.is_err());
    std::mem::forget(simu);
}

// F4: deadlock in a sub-model is not attributed.
struct Child { req: Requestor<(), ()> }
impl Child {
    async fn ask(&mut self) { let _ = self.req.send(()).await; }
    async fn reply(&mut self) {}
}
impl Model for Child {}
struct Parent;
impl Model for Parent {}
struct ProtoParent { child_mbox: Option<Mailbox<Child>> }
impl ProtoModel for ProtoParent {
    type Model = Parent;
    fn build(mut self, cx: &mut BuildContext<Self>) -> Parent {
        let mbox = self.child_mbox.take().unwrap();
        let mut child = Child { req: Requestor::new() };
        child.req.connect(Child::reply, &mbox); // query loopback on itself
        cx.add_submodel(child, mbox, "child");
        Parent
    }
}
#[test]
fn f4_submodel_deadlock_attribution() {
    let child_mbox = Mailbox::new();
    let child_addr = child_mbox.address();
    let (mut simu, _s) = SimInit::with_num_threads(1)
        .add_model(ProtoParent { child_mbox: Some(child_mbox) }, Mailbox::new(), "parent")
        .init(MonotonicTime::EPOCH).unwrap();
    let r = simu.process_event(Child::ask, (), &child_addr);
    println!("submodel query loopback -> {r:?}");
}

// F2: zero-period pre-built action accepted.
#[test]
fn f2_zero_period_accepted() {
    let mbox = Mailbox::new();
    let addr = mbox.address();
    let (_simu, sched) = SimInit::with_num_threads(1).add_model(Boom, mbox, "b").init(MonotonicTime::EPOCH).unwrap();
    let mut src = EventSource::<()>::new();
    src.connect(Boom::nop, &addr);
    let action = src.periodic_event(Duration::ZERO, ());
    let r = sched.schedule(Duration::from_secs(1), action);
    println!("schedule(zero-period periodic action) -> {r:?}  (step() would now never return)");
    let _ = (Output::<()>::new(), );
    let _: Option<&Context<Boom>> = None;
}
