// F6: the final clock synchronisation of step_until ignores a lag above the configured tolerance.
// Place in nexosim/tests/ and run: cargo test --offline -p nexosim --test repro_f6
use std::time::Duration;

use nexosim::model::Model;
use nexosim::simulation::{ExecutionError, Mailbox, SimInit};
use nexosim::time::{Clock, MonotonicTime, SyncStatus};

struct Nop;
impl Nop {
    fn nop(&mut self) {}
}
impl Model for Nop {}

/// A clock that is on time for the start time and one second late for every later deadline.
struct LateClock {
    start: MonotonicTime,
}
impl Clock for LateClock {
    fn synchronize(&mut self, deadline: MonotonicTime) -> SyncStatus {
        if deadline <= self.start {
            SyncStatus::Synchronized
        } else {
            SyncStatus::OutOfSync(Duration::from_secs(1))
        }
    }
}

fn bench(threads: usize) -> (nexosim::simulation::Simulation, nexosim::simulation::Scheduler, nexosim::simulation::Address<Nop>) {
    let t0 = MonotonicTime::EPOCH;
    let mbox = Mailbox::new();
    let addr = mbox.address();
    let (simu, sched) = SimInit::with_num_threads(threads)
        .add_model(Nop, mbox, "n")
        .set_clock(LateClock { start: t0 })
        .set_clock_tolerance(Duration::from_millis(10))
        .init(t0)
        .unwrap();
    (simu, sched, addr)
}

/// Reference behaviour: an event exactly at the target; the lag is reported.
#[test]
fn lag_reported_when_an_event_is_due_at_the_target() {
    let (mut simu, sched, addr) = bench(1);
    sched.schedule_event(Duration::from_secs(5), Nop::nop, (), &addr).unwrap();
    let r = simu.step_until(Duration::from_secs(5));
    assert!(matches!(r, Err(ExecutionError::OutOfSync(lag)) if lag == Duration::from_secs(1)), "got {:?}", r);
}

/// Same clock, same tolerance, but nothing is scheduled at the target: the final jump synchronises on the
/// target, the clock reports a lag of 1 s > 10 ms, and the documented contract ("any report of synchronization
/// loss that exceeds the specified tolerance will trigger an OutOfSync error") requires the same error.
#[test]
fn lag_reported_by_the_final_jump() {
    for threads in [1, 4] {
        let (mut simu, _sched, _addr) = bench(threads);
        let r = simu.step_until(Duration::from_secs(5));
        assert!(matches!(r, Err(ExecutionError::OutOfSync(lag)) if lag == Duration::from_secs(1)), "got {:?}", r);
        // and the simulation is terminated afterwards
        assert!(matches!(simu.step(), Err(ExecutionError::Terminated)));
    }
}
