// F5 triage: a worker clears its "active" bit *before* folding its thread-local
// message count into the global counter; the last worker can declare the pool idle
// and wake the executor in between, which then reads an incomplete count.
use nexosim::model::Model;
use nexosim::ports::Output;
use nexosim::simulation::{Mailbox, SimInit};
use nexosim::time::MonotonicTime;
use std::time::{Duration, Instant};

fn spin(us: u64) { let t = Instant::now(); while t.elapsed() < Duration::from_micros(us) { std::hint::spin_loop(); } }

#[derive(Default)]
struct Ping { out: Output<u64> }
impl Ping { async fn go(&mut self, v: u64) { self.out.send(v).await; spin(2); } }
impl Model for Ping {}

#[derive(Default)]
struct Pong { n: u64 }
impl Pong { async fn hit(&mut self, v: u64) { spin(1 + (v % 3)); self.n += v; } }
impl Model for Pong {}

#[test]
fn f5_msg_count_fold_race() {
    let mut ping = Ping::default();
    let ping_mbox = Mailbox::new();
    let mut init = SimInit::with_num_threads(12);
    for k in 0..6 {
        let pong_mbox = Mailbox::new();
        ping.out.connect(Pong::hit, &pong_mbox);
        init = init.add_model(Pong::default(), pong_mbox, format!("pong{k}"));
    }
    let ping_addr = ping_mbox.address();
    let (mut simu, _sched) = init.add_model(ping, ping_mbox, "ping").init(MonotonicTime::EPOCH).unwrap();
    for i in 0..400000u64 {
        let r = std::panic::catch_unwind(std::panic::AssertUnwindSafe(|| simu.process_event(Ping::go, i, &ping_addr)));
        match r {
            Ok(Ok(())) => {}
            Ok(Err(e)) => panic!("iteration {i}: all messages were processed, yet the step reported: {e:?}"),
            Err(_) => panic!("iteration {i}: Executor::run panicked (negative message count)"),
        }
    }
}
