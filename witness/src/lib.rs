//! E3 compile-fail witnesses for the public-API typestate facts (DESIGN.md section 1, E3).
//!
//! Every `compile_fail,E0xxx` snippet has a compiling twin (`no_run`) that differs only by the
//! offending line, so that a witness cannot pass because of an unrelated error. Nothing is executed.

/// C16 / C12 / C05: a mailbox is owned by exactly one model task.
pub mod c16 {
    /// A `Mailbox` is consumed by `SimInit::add_model`.
    /// ```compile_fail,E0382
    /// use nexosim::model::Model;
    /// use nexosim::simulation::{Mailbox, SimInit};
    /// struct M;
    /// impl Model for M {}
    /// let mb: Mailbox<M> = Mailbox::new();
    /// let _init = SimInit::new().add_model(M, mb, "m");
    /// let _addr = mb.address(); // the mailbox was moved into the simulation
    /// ```
    pub fn mailbox_moved_by_add_model() {}

    /// Twin of `mailbox_moved_by_add_model`.
    /// ```no_run
    /// use nexosim::model::Model;
    /// use nexosim::simulation::{Mailbox, SimInit};
    /// struct M;
    /// impl Model for M {}
    /// let mb: Mailbox<M> = Mailbox::new();
    /// let _addr = mb.address();
    /// let _init = SimInit::new().add_model(M, mb, "m");
    /// ```
    pub fn mailbox_moved_by_add_model_twin() {}

    /// A `Mailbox` cannot be cloned (two model tasks cannot share one receiver).
    /// ```compile_fail,E0599
    /// use nexosim::model::Model;
    /// use nexosim::simulation::Mailbox;
    /// struct M;
    /// impl Model for M {}
    /// let mb: Mailbox<M> = Mailbox::new();
    /// let _mb2 = mb.clone();
    /// ```
    pub fn mailbox_not_clone() {}

    /// Twin of `mailbox_not_clone`: addresses, unlike mailboxes, are clonable.
    /// ```no_run
    /// use nexosim::model::Model;
    /// use nexosim::simulation::Mailbox;
    /// struct M;
    /// impl Model for M {}
    /// let mb: Mailbox<M> = Mailbox::new();
    /// let _a2 = mb.address().clone();
    /// ```
    pub fn mailbox_not_clone_twin() {}

    /// `SimInit` is consumed by `init`: no model can be added after initialisation.
    /// ```compile_fail,E0382
    /// use nexosim::model::Model;
    /// use nexosim::simulation::{Mailbox, SimInit};
    /// use nexosim::time::MonotonicTime;
    /// struct M;
    /// impl Model for M {}
    /// let init = SimInit::new();
    /// let _sim = init.init(MonotonicTime::EPOCH);
    /// let _late = init.add_model(M, Mailbox::new(), "late");
    /// ```
    pub fn siminit_consumed_by_init() {}

    /// Twin of `siminit_consumed_by_init`.
    /// ```no_run
    /// use nexosim::model::Model;
    /// use nexosim::simulation::{Mailbox, SimInit};
    /// use nexosim::time::MonotonicTime;
    /// struct M;
    /// impl Model for M {}
    /// let init = SimInit::new();
    /// let init = init.add_model(M, Mailbox::new(), "early");
    /// let _sim = init.init(MonotonicTime::EPOCH);
    /// ```
    pub fn siminit_consumed_by_init_twin() {}
}

/// C09: cancellation keys.
pub mod c09 {
    /// `ActionKey::cancel` consumes the key.
    /// ```compile_fail,E0382
    /// use nexosim::simulation::ActionKey;
    /// fn f(k: ActionKey) {
    ///     k.cancel();
    ///     k.cancel();
    /// }
    /// ```
    pub fn cancel_consumes_key() {}

    /// Twin: a clone can be cancelled separately (clones share the flag).
    /// ```no_run
    /// use nexosim::simulation::ActionKey;
    /// fn f(k: ActionKey) {
    ///     k.clone().cancel();
    ///     k.cancel();
    /// }
    /// ```
    pub fn cancel_consumes_key_twin() {}

    /// An `AutoActionKey` cannot be cloned (dropping any copy would cancel the action).
    /// ```compile_fail,E0599
    /// use nexosim::simulation::ActionKey;
    /// fn f(k: ActionKey) {
    ///     let a = k.into_auto();
    ///     let _b = a.clone();
    /// }
    /// ```
    pub fn auto_key_not_clone() {}

    /// Twin of `auto_key_not_clone`.
    /// ```no_run
    /// use nexosim::simulation::ActionKey;
    /// fn f(k: ActionKey) {
    ///     let _b = k.clone();
    ///     let _a = k.into_auto();
    /// }
    /// ```
    pub fn auto_key_not_clone_twin() {}
}

/// C11 / C01: the simulation can only be driven through `&mut self`.
pub mod c11 {
    /// Stepping needs exclusive access: two concurrent drivers are impossible.
    /// ```compile_fail,E0596
    /// use nexosim::simulation::Simulation;
    /// fn f(s: &Simulation) {
    ///     let _ = s.step();
    /// }
    /// ```
    pub fn step_needs_mut() {}

    /// Twin of `step_needs_mut`.
    /// ```no_run
    /// use nexosim::simulation::Simulation;
    /// fn f(s: &mut Simulation) {
    ///     let _ = s.step();
    /// }
    /// ```
    pub fn step_needs_mut_twin() {}
}

/// C01: the time of a simulation can be read but not written through the public handles.
pub mod c01 {
    /// `Scheduler` exposes no way to set the time.
    /// ```compile_fail,E0599
    /// use nexosim::simulation::Scheduler;
    /// use nexosim::time::MonotonicTime;
    /// fn f(s: &Scheduler) {
    ///     s.set_time(MonotonicTime::EPOCH);
    /// }
    /// ```
    pub fn scheduler_cannot_write_time() {}

    /// Twin of `scheduler_cannot_write_time`.
    /// ```no_run
    /// use nexosim::simulation::Scheduler;
    /// fn f(s: &Scheduler) {
    ///     let _ = s.time();
    /// }
    /// ```
    pub fn scheduler_cannot_write_time_twin() {}
}
